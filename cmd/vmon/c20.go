package main

import (
	"context"
	"fmt"
	"os"
	"regexp"
	"runtime"
	"sort"
	"strconv"
	"strings"
	"sync"
	"sync/atomic"
	"time"

	"github.com/anishathalye/porcupine"
	"github.com/bluenviron/gohlslib/v2"
	"verif/internal/ev"
	"verif/internal/hx"
	"verif/internal/racelog"
)

// C20 — client segment queue: FIFO, exactly-once, no lost wake-up (direct drive).

type qop struct {
	Kind string // push | wait | pull
	N    int    // wait: threshold
	ID   int    // push: unique id
}

const (
	stIdle int32 = iota
	stRunning
	stGate
	stDone
)

type qworker struct {
	name   string
	ops    []qop
	status atomic.Int32
	gate   chan struct{}
	resume chan struct{}
	gid    atomic.Int64
	curOp  atomic.Int32
	hist   []qevent
}

type qevent struct {
	Worker string
	Op     qop
	Call   int64
	Ret    int64 // 0 = never returned
	OK     bool
	Val    int // pull: id (-1 none)
}

var reGID = regexp.MustCompile(`^goroutine (\d+) \[([^\]]*)\]`)

func curGID() int64 {
	buf := make([]byte, 64)
	n := runtime.Stack(buf, false)
	m := reGID.FindSubmatch(buf[:n])
	if m == nil {
		return -1
	}
	v, _ := strconv.ParseInt(string(m[1]), 10, 64)
	return v
}

// goroutineStates returns gid -> state for all goroutines.
func goroutineStates() map[int64]string {
	buf := make([]byte, 1<<16)
	for {
		n := runtime.Stack(buf, true)
		if n < len(buf) {
			buf = buf[:n]
			break
		}
		buf = make([]byte, len(buf)*2)
	}
	out := map[int64]string{}
	for _, blk := range strings.Split(string(buf), "\n\n") {
		m := reGID.FindStringSubmatch(blk)
		if m != nil {
			id, _ := strconv.ParseInt(m[1], 10, 64)
			out[id] = m[2]
		}
	}
	return out
}

type qexec struct {
	q        *gohlslib.VerifSegmentQueue
	ws       []*qworker
	ctx      context.Context
	cancel   func()
	canceled bool
	trace    []string
	choices  []int
	fanout   []int
}

func (e *qexec) blockedInSelect(w *qworker, states map[int64]string) bool {
	if w.status.Load() != stRunning {
		return false
	}
	st := states[w.gid.Load()]
	return strings.HasPrefix(st, "select")
}

// blockedOnLock: the worker waits for a mutex. None of the hooked windows lies inside the queue's
// critical sections, so when every other worker is at a stop nobody is going to release it.
func (e *qexec) blockedOnLock(w *qworker, states map[int64]string) bool {
	if w.status.Load() != stRunning {
		return false
	}
	st := states[w.gid.Load()]
	return strings.HasPrefix(st, "sync.Mutex.Lock") || strings.HasPrefix(st, "semacquire") || strings.HasPrefix(st, "sync.RWMutex")
}

// quiesce waits until every worker is at a stop: idle, at a gate, done, or blocked in a select.
func (e *qexec) quiesce() bool {
	stable := 0
	spins := 0
	lockSince := map[*qworker]time.Time{}
	deadline := time.Now().Add(5 * time.Second)
	for {
		all := true
		needStates := false
		for _, w := range e.ws {
			if w.status.Load() == stRunning {
				needStates = true
			}
		}
		var states map[int64]string
		if needStates {
			states = goroutineStates()
		}
		for _, w := range e.ws {
			switch w.status.Load() {
			case stIdle, stGate, stDone:
			default:
				if e.blockedInSelect(w, states) {
					break
				}
				// parked on the queue's mutex: a stop only when it lasts (100 ms) and the mutex really
				// cannot be taken; a moment of contention is not
				if e.blockedOnLock(w, states) {
					if _, free := e.q.TryLen(); !free {
						if lockSince[w].IsZero() {
							lockSince[w] = time.Now()
						}
						if time.Since(lockSince[w]) > 100*time.Millisecond {
							break
						}
					} else {
						lockSince[w] = time.Time{}
					}
				} else {
					lockSince[w] = time.Time{}
				}
				all = false
			}
		}
		if all {
			stable++
			if stable >= 2 {
				return true
			}
		} else {
			stable = 0
		}
		if time.Now().After(deadline) {
			return false
		}
		runtime.Gosched()
		if spins++; spins%50 == 0 {
			time.Sleep(10 * time.Microsecond)
		}
	}
}

func (w *qworker) run(e *qexec) {
	w.gid.Store(curGID())
	for i, op := range w.ops {
		w.curOp.Store(int32(i))
		w.status.Store(stIdle)
		<-w.resume
		evn := qevent{Worker: w.name, Op: op, Call: hx.Stamp(), Val: -1}
		switch op.Kind {
		case "push":
			if op.ID == 0 {
				e.q.Push(nil) // the end-of-stream marker the downloader queues after the last segment
			} else {
				e.q.Push([]byte{byte(op.ID)})
			}
			evn.OK = true
		case "wait":
			evn.OK = e.q.WaitUntilSizeIsBelow(e.ctx, op.N)
		case "pull":
			b, ok := e.q.Pull(e.ctx)
			evn.OK = ok
			if ok && len(b) == 1 {
				evn.Val = int(b[0])
			} else if ok && b == nil {
				evn.Val = 0 // the end marker
			}
		}
		evn.Ret = hx.Stamp()
		w.hist = append(w.hist, evn)
	}
	w.curOp.Store(int32(len(w.ops)))
	w.status.Store(stDone)
}

// runQExec runs one execution following the given choice prefix.
func runQExec(prod, cons []qop, allowCancel bool, prefix []int) (*qexec, bool) {
	e := &qexec{q: gohlslib.NewVerifSegmentQueue()}
	e.ctx, e.cancel = context.WithCancel(context.Background())
	p := &qworker{name: "P", ops: prod, gate: make(chan struct{}), resume: make(chan struct{})}
	c := &qworker{name: "C", ops: cons, gate: make(chan struct{}), resume: make(chan struct{})}
	e.ws = []*qworker{p, c}
	hx.OnKey(e.q.Key(), func(point string, _ any) {
		var w *qworker
		switch point {
		case "queue.wait.window":
			w = p
		case "queue.pull.window":
			w = c
		default:
			return
		}
		w.status.Store(stGate)
		<-w.gate
	})
	defer hx.OffKey(e.q.Key())
	for _, w := range e.ws {
		w.status.Store(stRunning)
		go w.run(e)
	}
	if !e.quiesce() {
		return e, false
	}
	for step := 0; step < 200; step++ {
		var enabled []string
		for _, w := range e.ws {
			s := w.status.Load()
			if s == stIdle || s == stGate {
				enabled = append(enabled, w.name)
			}
		}
		if allowCancel && !e.canceled {
			enabled = append(enabled, "X")
		}
		// cancelling is only interesting while somebody can still be affected
		if len(enabled) == 1 && enabled[0] == "X" {
			busy := false
			for _, w := range e.ws {
				if w.status.Load() == stRunning {
					busy = true
				}
			}
			if !busy {
				enabled = nil
			}
		}
		if len(enabled) == 0 {
			break
		}
		ch := 0
		if step < len(prefix) {
			ch = prefix[step]
		}
		if ch >= len(enabled) {
			ch = 0
		}
		e.choices = append(e.choices, ch)
		e.fanout = append(e.fanout, len(enabled))
		act := enabled[ch]
		switch act {
		case "X":
			e.canceled = true
			e.cancel()
			e.trace = append(e.trace, "X")
		default:
			var w *qworker
			for _, x := range e.ws {
				if x.name == act {
					w = x
				}
			}
			// the scheduler itself marks the worker as running before releasing it, so that a
			// stale "at gate" status can never be observed after the release
			ch := w.resume
			if w.status.Load() == stGate {
				e.trace = append(e.trace, act+"g")
				ch = w.gate
			} else {
				e.trace = append(e.trace, act+fmt.Sprint(w.curOp.Load()))
			}
			w.status.Store(stRunning)
			select {
			case ch <- struct{}{}:
			case <-time.After(5 * time.Second):
				return e, false
			}
		}
		if !e.quiesce() {
			return e, false
		}
	}
	return e, true
}

// release lets every goroutine of a finished execution run to completion.
func (e *qexec) release() {
	e.cancel()
	deadline := time.Now().Add(2 * time.Second)
	for _, w := range e.ws {
		for w.status.Load() != stDone && time.Now().Before(deadline) {
			switch w.status.Load() {
			case stIdle:
				select {
				case w.resume <- struct{}{}:
				default:
				}
			case stGate:
				select {
				case w.gate <- struct{}{}:
				default:
				}
			}
			runtime.Gosched()
		}
	}
}

func qModel() porcupine.Model {
	return porcupine.Model{
		Init: func() any { return "" },
		Step: func(state, input, output any) (bool, any) {
			st := state.(string)
			in := input.(qevent)
			var items []string
			if st != "" {
				items = strings.Split(st, ",")
			}
			switch in.Op.Kind {
			case "push":
				items = append(items, strconv.Itoa(in.Op.ID))
				return true, strings.Join(items, ",")
			case "pull":
				out := output.(qevent)
				if !out.OK {
					return true, st // cancelled: no effect
				}
				if len(items) == 0 || items[0] != strconv.Itoa(out.Val) {
					return false, st
				}
				return true, strings.Join(items[1:], ",")
			case "wait":
				out := output.(qevent)
				if !out.OK {
					return true, st
				}
				return len(items) <= in.Op.N, st
			}
			return false, st
		},
		Equal: func(a, b any) bool { return a.(string) == b.(string) },
		DescribeOperation: func(in, out any) string {
			i, o := in.(qevent), out.(qevent)
			return fmt.Sprintf("%s %s(%d/%d) -> ok=%v val=%d", i.Worker, i.Op.Kind, i.Op.ID, i.Op.N, o.OK, o.Val)
		},
	}
}

func tryLen(q *gohlslib.VerifSegmentQueue) int {
	if n, ok := q.TryLen(); ok {
		return n
	}
	return -1
}

// checkQExec applies the oracles to a finished execution.
func checkQExec(e *qexec, completed bool) []string {
	var out []string
	add := func(key, f string, a ...any) { out = append(out, "C20/"+key+"|"+fmt.Sprintf(f, a...)) }
	if !completed {
		add("harness-no-quiescence", "execution %v never became quiescent", e.trace)
		return out
	}
	states := goroutineStates()
	// (the length is read without waiting for the queue's mutex: it may have been left held)
	qlen, lenOK := e.q.TryLen()
	for i := 0; i < 400 && !lenOK; i++ {
		time.Sleep(250 * time.Microsecond)
		qlen, lenOK = e.q.TryLen()
	}
	for _, w := range e.ws {
		if w.status.Load() != stRunning {
			continue
		}
		if e.blockedOnLock(w, states) {
			if lenOK {
				// the mutex could be taken just now: what was seen was ordinary contention
				continue
			}
			op := w.ops[w.curOp.Load()]
			add("mutex-leaked/"+op.Kind, "schedule %v: %s is blocked on the queue's mutex in %s while every other operation has returned or is parked outside the critical sections: an earlier operation returned with the mutex held", e.trace, w.name, op.Kind)
			continue
		}
		if !e.blockedInSelect(w, states) {
			continue
		}
		op := w.ops[w.curOp.Load()]
		switch {
		case !lenOK:
			add("mutex-leaked/"+op.Kind, "schedule %v: every operation has returned or is parked, yet the queue's mutex is held", e.trace)
		case e.canceled:
			add("cancel-ignored/"+op.Kind, "schedule %v: %s is still blocked in %s although the context was cancelled", e.trace, w.name, op.Kind)
		case op.Kind == "pull" && qlen > 0:
			add("lost-wakeup/pull", "schedule %v: consumer is blocked in pull although %d segments are queued", e.trace, qlen)
		case op.Kind == "wait" && qlen <= op.N:
			add("lost-wakeup/wait", "schedule %v: producer is blocked in waitUntilSizeIsBelow(%d) although only %d segments are queued", e.trace, op.N, qlen)
		}
	}
	// history
	var ops []porcupine.Operation
	var pulled []int
	var pushed []int
	for ci, w := range e.ws {
		for _, h := range w.hist {
			ops = append(ops, porcupine.Operation{ClientId: ci, Input: h, Call: h.Call, Output: h, Return: h.Ret})
			if !h.OK && !e.canceled {
				add("spurious-failure/"+h.Op.Kind, "schedule %v: %s returned false although the context was never cancelled", e.trace, h.Op.Kind)
			}
			if h.Op.Kind == "pull" && h.OK {
				pulled = append(pulled, h.Val)
			}
			if h.Op.Kind == "push" {
				pushed = append(pushed, h.Op.ID)
			}
		}
	}
	for i, v := range pulled {
		if i >= len(pushed) || pushed[i] != v {
			add("fifo", "schedule %v: pulled %v, pushed %v", e.trace, pulled, pushed)
			break
		}
	}
	res := porcupine.CheckOperationsTimeout(qModel(), ops, 10*time.Second)
	switch res {
	case porcupine.Illegal:
		add("not-linearizable", "schedule %v: history is not linearizable w.r.t. a FIFO queue: %s", e.trace, describeHist(e))
	case porcupine.Unknown:
		add("harness-porcupine-timeout", "schedule %v: linearizability check timed out", e.trace)
	}
	return out
}

func describeHist(e *qexec) string {
	var evs []qevent
	for _, w := range e.ws {
		evs = append(evs, w.hist...)
	}
	sort.Slice(evs, func(i, j int) bool { return evs[i].Call < evs[j].Call })
	var sb strings.Builder
	for _, h := range evs {
		fmt.Fprintf(&sb, "[%d-%d %s %s id=%d n=%d ok=%v val=%d] ", h.Call, h.Ret, h.Worker, h.Op.Kind, h.Op.ID, h.Op.N, h.OK, h.Val)
	}
	return sb.String()
}

func scripts(maxP, maxC int) ([][]qop, [][]qop) {
	var prods [][]qop
	var rec func(cur []qop, pushes int)
	rec = func(cur []qop, pushes int) {
		if len(cur) > 0 {
			cp := append([]qop{}, cur...)
			prods = append(prods, cp)
		}
		if len(cur) == maxP {
			return
		}
		rec(append(cur, qop{Kind: "push", ID: pushes + 1}), pushes+1)
		if len(cur) > 0 && cur[len(cur)-1].Kind != "wait" {
			rec(append(cur, qop{Kind: "wait", N: 0}), pushes)
			rec(append(cur, qop{Kind: "wait", N: 1}), pushes)
		}
	}
	rec(nil, 0)
	var cons [][]qop
	for n := 0; n <= maxC; n++ {
		var c []qop
		for i := 0; i < n; i++ {
			c = append(c, qop{Kind: "pull"})
		}
		cons = append(cons, c)
	}
	return prods, cons
}

func scriptStr(ops []qop) string {
	var s []string
	for _, o := range ops {
		switch o.Kind {
		case "push":
			if o.ID == 0 {
				s = append(s, "end")
			} else {
				s = append(s, fmt.Sprintf("push%d", o.ID))
			}
		case "wait":
			s = append(s, fmt.Sprintf("wait<=%d", o.N))
		default:
			s = append(s, "pull")
		}
	}
	return strings.Join(s, " ")
}

type c20Replay struct {
	Property string `json:"property"`
	Prod     []qop  `json:"prod"`
	Cons     []qop  `json:"cons"`
	Cancel   bool   `json:"cancel"`
	Choices  []int  `json:"choices"`
}

func checkC20(tier string, seed int64) int {
	rep := ev.NewReporter("C20")
	hx.Install()
	maxP, maxC := 3, 2
	if tier == "thorough" {
		maxP, maxC = 4, 3
	}
	prods, cons := scripts(maxP, maxC)
	// thresholds above one (the Low-Latency downloader throttles at ten queued parts): a waiter must
	// proceed as soon as the backlog is at its own threshold, not only when the queue is nearly empty
	mk := func(pushes, n int) []qop {
		var p []qop
		for i := 1; i <= pushes; i++ {
			p = append(p, qop{Kind: "push", ID: i})
		}
		return append(p, qop{Kind: "wait", N: n})
	}
	prods = append(prods, mk(3, 2), mk(4, 2), mk(4, 3))
	// the end-of-stream marker (a nil entry) is an entry like any other: it must wake a parked
	// processor and be delivered after the segments
	end := qop{Kind: "push", ID: 0}
	prods = append(prods,
		[]qop{end},
		[]qop{{Kind: "push", ID: 1}, end},
		[]qop{{Kind: "push", ID: 1}, {Kind: "wait", N: 1}, end},
		[]qop{{Kind: "push", ID: 1}, {Kind: "push", ID: 2}, {Kind: "wait", N: 1}, end})
	execs := 0
	sigs := map[string]bool{}
	windows := 0
	var samples []any
	obs := map[string]int{}
	var mu sync.Mutex
	type job struct {
		pr, cn []qop
		cancel bool
	}
	jobs := make(chan job)
	var wgx sync.WaitGroup
	for wk := 0; wk < 8; wk++ {
		wgx.Add(1)
		go func(slot int) {
			defer wgx.Done()
			for j := range jobs {
				pr, cn, cancel := j.pr, j.cn, j.cancel
				stack := [][]int{{}}
				for len(stack) > 0 {
					prefix := stack[len(stack)-1]
					stack = stack[:len(stack)-1]
					rpl := c20Replay{"C20", pr, cn, cancel, prefix}
					rep.Current(slot, rpl)
					e, ok := runQExec(pr, cn, cancel, prefix)
					for i := len(prefix); i < len(e.choices); i++ {
						for alt := 1; alt < e.fanout[i]; alt++ {
							np := append(append([]int{}, e.choices[:i]...), alt)
							stack = append(stack, np)
						}
					}
					rpl.Choices = e.choices
					for _, v := range checkQExec(e, ok) {
						k, m := splitKM(v)
						rep.Report(k, fmt.Sprintf("producer [%s] consumer [%s]: %s", scriptStr(pr), scriptStr(cn), m), rpl)
					}
					sig := strings.Join(e.trace, " ")
					mu.Lock()
					execs++
					sigs[scriptStr(pr)+"|"+scriptStr(cn)+"|"+sig] = true
					for _, t := range e.trace {
						if strings.HasSuffix(t, "g") {
							windows++
						}
					}
					if e.canceled {
						obs["executions_with_cancel"]++
					}
					if len(samples) < 4 && len(e.trace) >= 5 && execs%97 == 3 {
						samples = append(samples, map[string]any{"producer": scriptStr(pr), "consumer": scriptStr(cn), "cancel": cancel, "schedule": e.trace, "history": describeHist(e)})
					}
					mu.Unlock()
					e.release()
				}
			}
		}(wk)
	}
	for _, pr := range prods {
		for _, cn := range cons {
			for _, cancel := range []bool{false, true} {
				jobs <- job{pr, cn, cancel}
			}
		}
	}
	close(jobs)
	wgx.Wait()
	obs["window_passages"] = windows
	obs["script_pairs"] = len(prods) * len(cons) * 2

	// (b) free-running stress under the race detector
	stressOps := 40000
	if tier == "thorough" {
		stressOps = 1500000
	}
	rounds := 40
	var lost atomic.Int32
	var fullBacklogs atomic.Int64
	for r := 0; r < rounds; r++ {
		if lost.Load() >= 2 {
			break
		}
		q := gohlslib.NewVerifSegmentQueue()
		ctx, cancel := context.WithCancel(context.Background())
		n := stressOps / rounds
		// the thresholds the client uses (1: one segment ahead; 10: queued Low-Latency parts) and
		// their neighbours
		thr := []int{0, 1, 2, 10, 1, 10, 3, 10}[r%8]
		var wg sync.WaitGroup
		var got []int
		var pushed, prodDone atomic.Int64
		wg.Add(2)
		go func() {
			defer wg.Done()
			defer prodDone.Store(1)
			for i := 0; i < n; i++ {
				q.Push([]byte{byte(i), byte(i >> 8), byte(i >> 16)})
				pushed.Add(1)
				if !q.WaitUntilSizeIsBelow(ctx, thr) {
					return
				}
			}
		}()
		go func() {
			defer wg.Done()
			for i := 0; i < n; i++ {
				if i%37 == 0 {
					// a stalled processor: let the producer run into its throttle (a full backlog is
					// thr+1 entries: it pushes first and waits afterwards). Workload shaping only,
					// bounded by yields.
					for y := 0; y < 20000 && prodDone.Load() == 0; y++ {
						if l, ok := q.TryLen(); ok && l > thr {
							fullBacklogs.Add(1)
							break
						}
						runtime.Gosched()
					}
				}
				b, ok := q.Pull(ctx)
				if !ok {
					return
				}
				got = append(got, int(b[0])|int(b[1])<<8|int(b[2])<<16)
				if i%64 == 0 {
					runtime.Gosched()
				}
			}
		}()
		done := make(chan struct{})
		go func() { wg.Wait(); close(done) }()
		select {
		case <-done:
		case <-time.After(10 * time.Second):
			lost.Add(1)
			if l, ok := q.TryLen(); ok && l == 0 && prodDone.Load() == 1 && int(pushed.Load()) == n {
				// (got is read while the consumer is parked in pull: it cannot be appending)
				rep.Report("C20/stress-lost", fmt.Sprintf("stress round %d (threshold %d): the producer pushed all %d elements and returned, the queue is empty and the consumer still waits: elements were pushed and never delivered", r, thr, n), map[string]any{"property": "C20", "stress_round": r})
			} else {
				rep.Report("C20/stress-deadlock", fmt.Sprintf("stress round %d (threshold %d): producer and consumer stopped making progress (queue length %d, %d pushed of %d)", r, thr, tryLen(q), pushed.Load(), n), map[string]any{"property": "C20", "stress_round": r})
			}
		}
		cancel()
		<-done
		for i, v := range got {
			if v != i {
				rep.Report("C20/stress-fifo", fmt.Sprintf("stress round %d: element %d delivered at position %d", r, v, i), map[string]any{"property": "C20", "stress_round": r})
				break
			}
		}
		obs["stress_ops"] += 2 * len(got)
	}
	obs["stress_full_backlogs_seen"] = int(fullBacklogs.Load())
	// (c) end-to-end: an origin much faster than real time (VOD, everything available at once)
	nE2E := 120
	if tier == "thorough" {
		nE2E = 3000
	}
	e2eObs, _, _ := runClientCases("C20", nE2E, 48, func(idx int) ([]string, map[string]int, string, map[string]any) {
		r := runC10Case(seed, 700000+idx)
		o := map[string]int{"e2e_cases": 1, "e2e_lookahead_checks": r.obs["lookahead_checks"]}
		if r.obs["max_lookahead"] > 0 {
			o[fmt.Sprintf("e2e_max_lookahead_%d", r.obs["max_lookahead"])] = 1
		}
		return r.c20viol, o, "", nil
	}, rep, func(idx int) any {
		return map[string]any{"property": "C20", "e2e_seed": seed, "e2e_index": 700000 + idx}
	})
	for k, v := range e2eObs {
		obs[k] += v
	}
	prefix := ""
	for _, kv := range strings.Fields(os.Getenv("GORACE")) {
		if strings.HasPrefix(kv, "log_path=") {
			prefix = strings.TrimPrefix(kv, "log_path=")
		}
	}
	races := 0
	if prefix != "" {
		time.Sleep(100 * time.Millisecond)
		reports, total := racelog.Parse(prefix + "." + fmt.Sprint(os.Getpid()))
		races = total
		for _, r := range reports {
			if r.HarnessOnly {
				fmt.Printf("HARNESS-RACE (monitor defect, not a verdict about gohlslib): %s\n", r.Key)
				continue
			}
			path := ev.Root + "/replays/C20/race-" + strings.NewReplacer("/", "_", "|", "--", "*", "", "(", "", ")", "").Replace(r.Key) + ".txt"
			os.WriteFile(path, []byte(r.First), 0o644)
			rep.Report("C20/race/"+r.Key, fmt.Sprintf("data race (%d reports) between %s; report in %s", r.Count, r.Key, path), map[string]any{"property": "C20", "race_report": path})
		}
	} else {
		fmt.Println("INCONCLUSIVE property=C20 GORACE log_path not set: race reports are not collected")
	}
	obs["race_reports"] = races
	if len(samples) == 0 {
		samples = append(samples, "no sample recorded")
	}
	e := &ev.Evidence{
		PropertyID: "C20", Tier: tier, Seed: seed, Level: "exploration",
		Coverage: map[string]any{
			"evaluations": execs, "distinct_nontrivial": len(sigs),
			"rule":               fmt.Sprintf("direct drive of the real clientSegmentQueue: every producer script over {push, waitUntilSizeIsBelow(0|1)} of length <= %d x consumer scripts of 0..%d pulls x cancellation allowed or not; the two unlock->wait windows (hooks queue.pull.window / queue.wait.window) and the operation boundaries are the only preemption points, and every choice of which actor advances there (and where the context is cancelled) is enumerated depth-first; each execution's history is checked with porcupine against a FIFO model plus the quiescent wake-up oracle (goroutine state from runtime.Stack); then free-running stress under the race detector. distinct = distinct (scripts, schedule) signatures", maxP, maxC),
			"samples":            samples,
			"observed":           obs,
			"exhaustive":         false,
			"known_findings_hit": rep.KnownHits(),
		},
		Assumptions: []string{
			"one producer and one consumer, as in the client",
			"the enumeration is exhaustive for the stated script bounds only (the number of executions can differ by a few between runs: whether a woken goroutine reaches its next stop before the scheduler polls is timing dependent)",
		},
		WallS: rep.Elapsed(), Violations: rep.NewViolations(),
	}
	e.Write()
	fmt.Printf("C20: %d executions over %d script pairs, %d distinct schedules, %d window passages, %d stress ops, %d race reports, %d new violations, %d known findings, %.1fs\n",
		execs, obs["script_pairs"], len(sigs), windows, obs["stress_ops"], races, rep.NewViolations(), len(rep.KnownHits()), rep.Elapsed())
	if rep.NewViolations() > 0 {
		return 1
	}
	return 0
}

func init() {
	checks["C20"] = checkC20
	replayers["C20"] = func(path string) int {
		b, _ := os.ReadFile(path)
		var doc struct {
			Replay c20Replay `json:"replay"`
		}
		if err := jsonUnmarshal(b, &doc); err != nil || len(doc.Replay.Prod) == 0 {
			fmt.Println(string(b))
			return 0
		}
		hx.Install()
		r := doc.Replay
		e, ok := runQExec(r.Prod, r.Cons, r.Cancel, r.Choices)
		fmt.Println("schedule:", e.trace)
		fmt.Println("history:", describeHist(e))
		vs := checkQExec(e, ok)
		for _, v := range vs {
			fmt.Println("VIOLATED:", v)
		}
		e.cancel()
		if len(vs) > 0 {
			return 1
		}
		fmt.Println("held on this schedule")
		return 0
	}
}
