package main

import (
	"encoding/json"
	"fmt"
	"os"
	"runtime"
	"sort"
	"sync"
	"time"

	"verif/internal/ev"
	"verif/internal/media"
	"verif/internal/muxrun"
	"verif/internal/oracle"
)

// muxProp describes one property decided by the sequential muxer monitor.
type muxProp struct {
	id          string
	oracle      func(*oracle.Ctx)
	gen         func(seed int64, idx int, tier string) (*media.Case, muxrun.Options)
	quick       int
	thorough    int
	rule        string
	assumptions []string
	floors      map[string]int // stat -> minimum (quick tier); below => INCONCLUSIVE line
	extraRun    func(c *media.Case, h *muxrun.History, x *oracle.Ctx)
	serial      bool
	// pre runs alone in the process before the parallel histories (measurements of the process itself)
	pre func(rep *ev.Reporter, tier string, seed int64, stats oracle.Stats)
}

type caseRef struct {
	Property string `json:"property"`
	Seed     int64  `json:"seed"`
	Index    int    `json:"index"`
	Tier     string `json:"tier"`
}

func publishedSegments(h *muxrun.History) int {
	n := 0
	for _, u := range h.URIs {
		if u.Kind == "seg" {
			n++
		}
	}
	if n > 0 || len(h.StreamIDs) == 0 {
		return n
	}
	// playlists only (NoFetch): count distinct non-gap MSNs of the first stream
	seen := map[int]bool{}
	for _, r := range h.Rounds {
		so := r.Streams[h.StreamIDs[0]]
		if so == nil || so.PL == nil || so.PL.Media == nil {
			continue
		}
		for _, s := range so.PL.Media.Segments {
			if !s.Gap {
				seen[s.MSN] = true
			}
		}
	}
	return len(seen)
}

func runMuxProp(p *muxProp, tier string, seed int64) int {
	rep := ev.NewReporter(p.id)
	n := p.quick
	if tier == "thorough" {
		n = p.thorough
	}
	workers := runtime.NumCPU()
	if p.serial {
		workers = 1
	}
	stats := oracle.Stats{}
	if p.pre != nil {
		p.pre(rep, tier, seed, stats)
	}
	var mu sync.Mutex
	sigs := map[string]bool{}
	var samples []any
	evaluated := 0
	harness := 0
	idxCh := make(chan int)
	var wg sync.WaitGroup
	for w := 0; w < workers; w++ {
		wg.Add(1)
		go func(slot int) {
			defer wg.Done()
			for idx := range idxCh {
				ref := caseRef{p.id, seed, idx, tier}
				rep.Current(slot, ref)
				c, opts := p.gen(seed, idx, tier)
				// every second case also observes from inside each segment rotation (between the
				// release of the muxer mutex and the broadcast)
				opts.Window = idx%2 == 1
				h := muxrun.Run(c, opts)
				st := oracle.Stats{}
				x := oracle.NewCtx(h, st)
				if h.StartErr == "" {
					p.oracle(x)
					if p.extraRun != nil {
						p.extraRun(c, h, x)
					}
				}
				mu.Lock()
				evaluated++
				for k, v := range st {
					stats[k] += v
				}
				stats["cases.writes"] += len(c.Writes)
				stats["cases.rounds"] += len(h.Rounds)
				stats["cases.write_errors"] += h.WriteErrs
				stats["uris.fetched_by_two_overlapping_requests"] += h.Overlapped
				stats["rounds.inside_a_rotation"] += h.WindowRounds
				stats["cases.parameters_left_at_their_defaults"] += h.DefaultsUsed
				stats[fmt.Sprintf("cases.variant%d", c.Cfg.Variant)]++
				if c.Cfg.Disk {
					stats["cases.disk"]++
				}
				for f := range c.Features {
					stats["feature."+f]++
				}
				for _, t := range c.Tracks {
					stats["codec."+t.Kind.String()]++
				}
				segs := publishedSegments(h)
				stats["cases.segments_published"] += segs
				if segs >= 3 {
					sigs[c.Sig()] = true
				}
				if len(samples) < 4 && segs >= 3 {
					d := c.Describe()
					d["segments_published"] = segs
					d["rounds"] = len(h.Rounds)
					samples = append(samples, d)
				}
				if h.StartErr != "" {
					harness++
					fmt.Printf("HARNESS: case %d: Start failed: %s\n", idx, h.StartErr)
				}
				mu.Unlock()
				for _, hg := range h.Hangs {
					rep.Report(p.id+"/hang", fmt.Sprintf("case %d: %s", idx, hg), ref)
				}
				for _, pn := range h.Panics {
					rep.Report(p.id+"/panic", fmt.Sprintf("case %d: %s", idx, pn), ref)
				}
				for _, v := range x.V {
					rep.Report(v.Key, fmt.Sprintf("case %d: %s", idx, v.Msg), ref)
				}
			}
		}(w)
	}
	for i := 0; i < n; i++ {
		idxCh <- i
	}
	close(idxCh)
	wg.Wait()

	// floors
	var inconclusive []string
	if tier == "quick" || tier == "thorough" {
		keys := make([]string, 0, len(p.floors))
		for k := range p.floors {
			keys = append(keys, k)
		}
		sort.Strings(keys)
		for _, k := range keys {
			if stats[k] < p.floors[k] {
				msg := fmt.Sprintf("INCONCLUSIVE property=%s clause %s observed %d times (floor %d)", p.id, k, stats[k], p.floors[k])
				fmt.Println(msg)
				inconclusive = append(inconclusive, msg)
			}
		}
	}

	cov := map[string]any{
		"evaluations":         evaluated,
		"distinct_nontrivial": len(sigs),
		"rule":                p.rule,
		"samples":             samples,
		"observed":            stats,
		"inconclusive":        inconclusive,
		"known_findings_hit":  rep.KnownHits(),
		"harness_failures":    harness,
	}
	e := &ev.Evidence{
		PropertyID: p.id, Tier: tier, Seed: seed, Level: "exploration", Coverage: cov,
		Assumptions: p.assumptions, WallS: rep.Elapsed(), Violations: rep.NewViolations(),
	}
	if err := e.Write(); err != nil {
		fmt.Fprintln(os.Stderr, "evidence:", err)
	}
	fmt.Printf("%s: %d cases, %d distinct non-trivial, %d new violations, %d known findings, %.1fs\n",
		p.id, evaluated, len(sigs), rep.NewViolations(), len(rep.KnownHits()), rep.Elapsed())
	if rep.NewViolations() > 0 {
		return 1
	}
	return 0
}

var muxProps = map[string]*muxProp{}

func regMux(p *muxProp) {
	muxProps[p.id] = p
	checks[p.id] = func(tier string, seed int64) int { return runMuxProp(p, tier, seed) }
	replayers[p.id] = func(path string) int { return replayMux(p, path) }
}

func replay(path string) int {
	b, err := os.ReadFile(path)
	if err != nil {
		fmt.Fprintln(os.Stderr, err)
		return 2
	}
	var doc struct {
		Property string `json:"property"`
	}
	json.Unmarshal(b, &doc)
	f, ok := replayers[doc.Property]
	if !ok {
		fmt.Fprintf(os.Stderr, "no replayer for %q\n", doc.Property)
		return 2
	}
	return f(path)
}

func readCaseRef(path string) (caseRef, error) {
	b, err := os.ReadFile(path)
	if err != nil {
		return caseRef{}, err
	}
	var doc struct {
		Replay caseRef `json:"replay"`
	}
	err = json.Unmarshal(b, &doc)
	return doc.Replay, err
}

func replayMux(p *muxProp, path string) int {
	b, _ := os.ReadFile(path)
	var doc struct {
		Replay caseRef `json:"replay"`
	}
	if err := json.Unmarshal(b, &doc); err != nil {
		fmt.Fprintln(os.Stderr, err)
		return 2
	}
	ref := doc.Replay
	if ref.Index < 0 && p.pre != nil {
		rep := ev.NewReporter(p.id)
		p.pre(rep, ref.Tier, ref.Seed, oracle.Stats{})
		if rep.NewViolations() > 0 {
			return 1
		}
		fmt.Println("held on this case")
		return 0
	}
	c, opts := p.gen(ref.Seed, ref.Index, ref.Tier)
	d, _ := json.MarshalIndent(c.Describe(), "", " ")
	fmt.Println(string(d))
	t0 := time.Now()
	h := muxrun.Run(c, opts)
	x := oracle.NewCtx(h, oracle.Stats{})
	p.oracle(x)
	if p.extraRun != nil {
		p.extraRun(c, h, x)
	}
	fmt.Printf("rounds=%d segments=%d hangs=%v panics=%v (%.2fs)\n", len(h.Rounds), publishedSegments(h), h.Hangs, h.Panics, time.Since(t0).Seconds())
	for _, v := range x.V {
		fmt.Println("VIOLATED:", v.String())
	}
	if len(x.V) > 0 || len(h.Hangs) > 0 || len(h.Panics) > 0 {
		return 1
	}
	fmt.Println("held on this case")
	return 0
}

func stdAssumptions() []string {
	return []string{
		"mediacommon v2.1.0 (fmp4, mpegts, codec parsers) and go-astits are the trusted base of the decoders",
		"fMP4 variants use the codec's natural clock rate (90 kHz video, sample rate for AAC, 48 kHz Opus); MPEG-TS clock rates vary",
		"write sequences start at >= -10 s and keep per-track DTS non-decreasing",
		"the verdict covers the generated cases only (seeded sampling, no enumeration)",
	}
}

func init() {
	general := func(profile string, maxWrites int) func(seed int64, idx int, tier string) (*media.Case, muxrun.Options) {
		return func(seed int64, idx int, tier string) (*media.Case, muxrun.Options) {
			o := media.GenOpts{Profile: profile, MaxWrites: maxWrites}
			if tier == "thorough" {
				o.MaxWrites = maxWrites * 3
				o.MaxSegments = 20
			}
			return media.Gen(seed, idx, o), muxrun.Options{}
		}
	}
	regMux(&muxProp{
		id: "C01", oracle: oracle.C01, gen: general("general", 1200), quick: 320, thorough: 12000,
		rule:        "seeded generator (variant x tracks x codecs x timing shapes x interleaving x storage); a case is non-trivial when >= 3 segments were published; distinct = distinct (variant, codecs, clock rates, counts, durations, storage, feature set, size bucket) signatures",
		assumptions: stdAssumptions(),
		floors: map[string]int{"C01.segments_decoded": 200, "C01.parts_decoded": 50, "feature.negstart": 1, "feature.midgop": 1,
			"feature.multiau": 1, "cases.disk": 1, "codec.H264": 1, "codec.H265": 1, "codec.AV1": 1, "codec.VP9": 1, "codec.AAC": 1, "codec.Opus": 1},
	})
	regMux(&muxProp{
		id: "C02", oracle: oracle.C02, quick: 400, thorough: 15000,
		gen: func(seed int64, idx int, tier string) (*media.Case, muxrun.Options) {
			prof := "general"
			if idx%2 == 0 {
				prof = "exact"
			}
			o := media.GenOpts{Profile: prof, MaxWrites: 1000}
			if tier == "thorough" {
				o.MaxWrites = 3000
				o.MaxSegments = 20
			}
			return media.Gen(seed, idx, o), muxrun.Options{}
		},
		rule:        "half of the cases place key frames at exact relations to SegmentMinDuration (equal, one tick short, +-1 ns, double), half are general with parameter changes on RA / non-RA / back-to-back; non-trivial = >= 3 published segments",
		assumptions: stdAssumptions(),
		floors: map[string]int{"C02.cuts_due": 100, "C02.cuts_due_param_change": 5, "feature.exact-eq": 1, "feature.exact-short": 1,
			"feature.param-nonra": 1, "feature.param-backtoback": 1, "C02.init_freshness_after_change": 1},
	})
	regMux(&muxProp{
		id: "C03", oracle: oracle.C03, gen: general("general", 1200), quick: 320, thorough: 12000,
		rule:        "general generator incl. irregular frame durations, 44.1 kHz and 1001-based rates, arbitrary NTP; non-trivial = >= 3 published segments",
		assumptions: stdAssumptions(),
		floors:      map[string]int{"C03.extinf_checked": 500, "C03.part_durations_checked": 100, "C03.pdt_checked": 100, "C03.target_increases": 1},
	})
	regMux(&muxProp{
		id: "C05", oracle: oracle.C05, quick: 320, thorough: 10000,
		gen: func(seed int64, idx int, tier string) (*media.Case, muxrun.Options) {
			disk := idx%2 == 0
			o := media.GenOpts{Profile: "general", MaxWrites: 1000, ForceDisk: &disk}
			if tier == "thorough" {
				o.MaxWrites = 3000
				o.MaxSegments = 20
			}
			if idx%5 == 4 {
				// a tight SegmentMaxSize: the limit counts media payload, the stored segment (container
				// overhead included) may well be larger and must still be served whole
				o.Profile = "size"
				o.MaxWrites = 1500
				return media.Gen(seed, idx, o), muxrun.Options{StopOnWriteErr: true}
			}
			return media.Gen(seed, idx, o), muxrun.Options{}
		},
		rule:        "general generator (every fifth case: small SegmentMaxSize, payloads straddling the limit), Directory storage in every second case; every listed URI fetched when first listed and whenever the playlist text changes; non-trivial = >= 3 published segments",
		assumptions: stdAssumptions(),
		floors:      map[string]int{"C05.disk_refetched": 50, "C05.expired_probed": 50, "C05.parts_concat_checked": 20},
	})
	regMux(&muxProp{
		id: "C04", oracle: oracle.C04, quick: 160, thorough: 3000,
		gen: func(seed int64, idx int, tier string) (*media.Case, muxrun.Options) {
			o := media.GenOpts{Profile: "long", MinSegments: 20, MaxSegments: 60, MaxWrites: 6000}
			if tier == "thorough" {
				// (50-400 rotations x 16 workers peaked at 58 GB of the 62 GB of this machine once the
				// delta updates and the rounds inside rotations were added: bounded to 50-200)
				o.MinSegments, o.MaxSegments, o.MaxWrites = 50, 200, 20000
			}
			return media.Gen(seed, idx, o), muxrun.Options{Light: true, RoundEvery: 4, Delta: true}
		},
		rule:        "long histories (20-60 rotations quick, 50-200 thorough; playlists observed after every rotation and every 4th write, Low-Latency: each followed by its _HLS_skip=YES delta update) in every variant; non-trivial = >= 3 published segments; window slides counted",
		assumptions: stdAssumptions(),
		floors:      map[string]int{"C04.streams_slid_2x": 20, "C04.hints_checked": 200, "cases.variant3": 5, "C04.delta_playlists_with_skipped_segments": 50},
	})
	regMux(&muxProp{
		id: "C16", oracle: oracle.C16, quick: 400, thorough: 12000,
		gen: func(seed int64, idx int, tier string) (*media.Case, muxrun.Options) {
			o := media.GenOpts{Profile: "mv", MaxWrites: 800}
			if tier == "thorough" {
				o.MaxWrites = 2500
				o.MaxSegments = 16
			}
			return media.Gen(seed, idx, o), muxrun.Options{NoFetch: false, AltQuery: true}
		},
		rule:        "track lists of every order / codec / name / language / default combination the generator produces (0-1 video, 0-4 audio), with parameter changes; index.m3u8 checked after every Write, and asked a second time with another query string (a second viewer); non-trivial = >= 3 published segments",
		assumptions: stdAssumptions(),
		floors:      map[string]int{"C16.multivariant_checked": 5000, "C16.renditions_checked": 1000, "C16.bandwidth_exact_checked": 500, "feature.paramchange": 10},
	})
	regMux(&muxProp{
		id: "C18", oracle: oracle.C18, quick: 240, thorough: 1500,
		gen: func(seed int64, idx int, tier string) (*media.Case, muxrun.Options) {
			if idx%3 == 0 {
				o := media.GenOpts{Profile: "size", MaxWrites: 1500}
				return media.Gen(seed, idx, o), muxrun.Options{StopOnWriteErr: true}
			}
			o := media.GenOpts{Profile: "long", MinSegments: 20, MaxSegments: 80, MaxWrites: 6000}
			if tier == "thorough" {
				// (bounded by memory: a history keeps every observed playlist; 1500 rotations x 16
				// workers exhausted the 62 GB of this machine and the thrashing produced watchdog hangs)
				o.MinSegments, o.MaxSegments, o.MaxWrites = 100, 400, 40000
			}
			return media.Gen(seed, idx, o), muxrun.Options{Light: true, RoundEvery: 4}
		},
		pre:         heapProbe,
		rule:        "seven histories of 400 (thorough: 3000) rotations run alone in the process with the live heap measured after forced collections; 24 (thorough: 240) triples of never-rotating single-track histories with SegmentMaxSize one byte below, exactly at, and one sample minus one byte above k samples; four AV1 histories in which 8 (thorough: 60) rotations fail on a refused sequence header, compared with the same history without failures; one MPEG-TS Directory history with episodes of disk write faults (file size limit of 8 KB); then (every second case also observed from inside each segment rotation) two thirds long histories (20-80 rotations quick, 100-400 thorough), one third small SegmentMaxSize with payloads straddling the limit; non-trivial = >= 3 published segments",
		assumptions: stdAssumptions(),
		floors:      map[string]int{"C18.path_counts_checked": 2000, "C18.dir_listings_checked": 500, "C18.expired_probed": 500, "C18.size_limit_hit": 10, "C18.segments_near_limit": 5, "C18.heap_histories": 7, "C18.limit_boundaries_checked": 20, "C18.failed_rotation_histories": 4, "C18.write_fault_histories": 1},
	})
	regMux(&muxProp{
		id: "C19", oracle: oracle.C19, quick: 400, thorough: 12000,
		gen: func(seed int64, idx int, tier string) (*media.Case, muxrun.Options) {
			o := media.GenOpts{Profile: "regular", MaxWrites: 3000}
			return media.Gen(seed, idx, o), muxrun.Options{NoFetch: true}
		},
		rule:        "Low-Latency muxers whose leading track has one constant sample duration: frame rates 1-120 fps incl. 1001-based, AAC at all standard rates, Opus frame sizes x PartMinDuration 50 ms-2 s (also off the 5 ms grid) x SegmentMinDuration x key spacing; non-trivial = >= 3 published segments",
		assumptions: stdAssumptions(),
		floors:      map[string]int{"C19.streams_with_parts": 250, "C19.nonfinal_parts_checked": 5000},
	})
}
