package main

import (
	"bytes"
	"fmt"
	"math/rand"
	"net/url"
	"runtime"
	"sort"
	"strings"
	"sync"
	"time"

	"verif/internal/ev"
	"verif/internal/hx"
	"verif/internal/m3u8x"
	"verif/internal/media"
	"verif/internal/muxrun"
)

// C06 — blocking playlist reload, preload hints, delta updates (step-controlled histories).

type llState struct {
	ok      bool
	pl      *m3u8x.Media
	ms      int         // MEDIA-SEQUENCE
	open    int         // MSN of the open segment
	parts   map[int]int // MSN -> number of published parts (complete segments and the open one)
	gap     map[int]bool
	listed  map[int]bool
	partIDs map[int]bool // published part numbers
	hint    string
}

func stateOf(pl *m3u8x.Media) *llState {
	s := &llState{ok: true, pl: pl, ms: pl.MediaSequence, parts: map[int]int{}, gap: map[int]bool{}, listed: map[int]bool{}, partIDs: map[int]bool{}}
	s.open = pl.MediaSequence + len(pl.Segments)
	for _, sg := range pl.Segments {
		s.listed[sg.MSN] = true
		s.gap[sg.MSN] = sg.Gap
		s.parts[sg.MSN] = -1 // unknown unless parts are listed
		if len(sg.Parts) > 0 {
			s.parts[sg.MSN] = len(sg.Parts)
		}
		for _, p := range sg.Parts {
			s.partIDs[partNoOf(p.URI)] = true
		}
	}
	s.parts[s.open] = len(pl.TrailingParts)
	for _, p := range pl.TrailingParts {
		s.partIDs[partNoOf(p.URI)] = true
	}
	if pl.Hint != nil {
		s.hint = pl.Hint.URI
	}
	return s
}

func partNoOf(uri string) int {
	b := uri
	if i := strings.IndexByte(b, '?'); i >= 0 {
		b = b[:i]
	}
	i := strings.LastIndex(b, "_part")
	if i < 0 {
		return -1
	}
	n := 0
	fmt.Sscanf(b[i+5:], "%d", &n)
	return n
}

// llReq is one monitored request.
type llReq struct {
	ID        int
	Stream    string
	Class     string
	URL       string
	M, P      int
	HasM      bool
	HasP      bool
	IssueStep int
	q         *hx.Req
	parksSeen int
	doneStep  int
	hintPart  int
	finished  bool
	partsOfM  int // number of parts of M when known at issue time (complete segments), -1 unknown
	issueMS   int
	issueOpen int
}

// satisfiable reports whether the request can be answered from state s; known=false when the
// state does not tell (parts of an older complete segment are not listed any more).
func (r *llReq) satisfiable(s *llState, partsHist map[int]int) (sat bool, known bool) {
	if !s.ok {
		return false, true
	}
	if r.Class == "hint" {
		return s.partIDs[r.hintPart] || r.hintPart < minPart(s), true
	}
	m, p := r.M, r.P
	if !r.HasP {
		// the complete segment M
		return m < s.open, true
	}
	for {
		if m > s.open {
			return false, true
		}
		if m == s.open {
			return p < s.parts[m], true
		}
		n, ok := partsHist[m]
		if s.gap[m] {
			n, ok = 0, true // a gap entry has no parts: any index rolls over
		}
		if !ok {
			return false, false
		}
		if p < n {
			return true, true
		}
		m, p = m+1, 0
	}
}

func minPart(s *llState) int {
	min := 1 << 30
	for p := range s.partIDs {
		if p < min {
			min = p
		}
	}
	return min
}

type c06Result struct {
	viol    []string // key|msg
	obs     map[string]int
	sig     string
	samples []string
}

func runC06History(seed int64, idx int, tier string) *c06Result {
	res := &c06Result{obs: map[string]int{}}
	fail := func(key, f string, a ...any) {
		if len(res.viol) < 12 {
			res.viol = append(res.viol, "C06/"+key+"|"+fmt.Sprintf(f, a...))
		}
	}
	rng := rand.New(rand.NewSource(seed*999983 + int64(idx)*31337 + 5))
	c := media.Gen(seed, 100000+idx, media.GenOpts{Profile: "general", Variant: media.VarLL, MaxWrites: 260, MinSegments: 9, MaxSegments: 14})
	if rng.Intn(3) == 0 {
		c.Query = "token=abc"
	}
	h := muxrun.New(c, muxrun.Options{})
	if h.StartErr != "" {
		fail("harness", "start: %s", h.StartErr)
		return res
	}
	defer h.Cleanup()
	opts := muxrun.Options{NoFetch: true}
	var reqs []*llReq
	states := map[string]*llState{}
	partsHist := map[string]map[int]int{} // per stream: MSN -> parts once complete
	partBody := map[string][]byte{}
	for _, id := range h.StreamIDs {
		partsHist[id] = map[int]int{}
	}
	watchdog := 10 * time.Second
	noWake := false

	issue := func(step int, stream, class string) {
		s := states[stream]
		if s == nil || !s.ok {
			return
		}
		r := &llReq{ID: len(reqs), Stream: stream, Class: class, IssueStep: step, partsOfM: -1, doneStep: -1}
		name := stream + "_stream.m3u8"
		q := ""
		base := ""
		if c.Query != "" {
			base = c.Query + "&"
		}
		last := s.open - 1
		curParts := s.parts[s.open]
		switch class {
		case "expired":
			if s.ms == 0 {
				return
			}
			r.M, r.HasM = rng.Intn(s.ms), true
		case "oldest":
			r.M, r.HasM = s.ms, true
		case "gap":
			found := false
			for m := s.ms + 1; m <= last; m++ {
				if s.gap[m] {
					r.M, r.HasM, found = m, true, true
					if rng.Intn(2) == 0 {
						r.P, r.HasP = rng.Intn(3), true
					}
					break
				}
			}
			if !found {
				return
			}
		case "complete":
			var cands []int
			for m := s.ms + 1; m <= last; m++ {
				if !s.gap[m] {
					cands = append(cands, m)
				}
			}
			if len(cands) == 0 {
				return
			}
			r.M, r.HasM = cands[rng.Intn(len(cands))], true
			if n, ok := partsHist[stream][r.M]; ok && rng.Intn(3) != 0 {
				r.HasP = true
				r.partsOfM = n
				if rng.Intn(2) == 0 && n > 0 {
					r.P = rng.Intn(n)
					r.Class = "complete-part"
				} else {
					r.P = n + rng.Intn(3)
					r.Class = "complete-past-end"
				}
			}
		case "open":
			r.M, r.HasM = s.open, true
			switch rng.Intn(4) {
			case 0:
				r.Class = "open-nopart"
			case 1:
				if curParts == 0 {
					return
				}
				r.P, r.HasP = rng.Intn(curParts), true
				r.Class = "open-published"
			case 2:
				r.P, r.HasP = curParts, true
				r.Class = "open-next-part"
			default:
				// one to three parts ahead, or far beyond anything the segment will ever hold (no
				// advance limit is stated: the request rolls over to the next segment when this one ends)
				r.P, r.HasP = curParts+[]int{1, 2, 3, 3, 4, 5, 8, 13, 50}[rng.Intn(9)], true
				r.Class = "open-beyond"
			}
		case "next":
			r.M, r.HasM = s.open+1, true
			if rng.Intn(2) == 0 {
				r.P, r.HasP = rng.Intn(3), true
			}
		case "far":
			r.M, r.HasM = s.open+2+rng.Intn(5), true
			if rng.Intn(2) == 0 {
				r.P, r.HasP = rng.Intn(3), true
			}
		case "malformed":
			// numbers that are not decimal-integers (RFC 8216bis: digits only), on either directive,
			// next to an otherwise valid one for the last complete or the open segment
			bad := []string{"abc", "x", "-1", "-0", "%2B1", "+1", "1.0", "1e0", "0x1", "%201", "1%20", "", "１", "18446744073709551616", "99999999999999999999999"}
			b := bad[rng.Intn(len(bad))]
			m := s.open - rng.Intn(2)
			switch rng.Intn(5) {
			case 0:
				q = base + "_HLS_part=1"
			case 1:
				q = base + "_HLS_msn=" + b
			case 2:
				q = base + fmt.Sprintf("_HLS_msn=%d&_HLS_part=%s", m, b)
			case 3:
				q = base + fmt.Sprintf("_HLS_msn=%s&_HLS_part=0", b)
			default:
				q = base + "_HLS_msn=-1"
			}
			if strings.HasSuffix(q, "_HLS_msn=") || strings.Contains(q, "_HLS_msn=&") {
				q = base + "_HLS_part=0" // an empty _HLS_msn is no _HLS_msn: _HLS_part alone is the malformed form
			}
			if strings.HasSuffix(q, "_HLS_part=") {
				q = base + "_HLS_msn=x"
			}
		case "hint":
			if s.hint == "" {
				return
			}
			r.hintPart = partNoOf(s.hint)
			r.URL = s.hint
		}
		if r.URL == "" {
			if q == "" {
				q = base + fmt.Sprintf("_HLS_msn=%d", r.M)
				if r.HasP {
					q += fmt.Sprintf("&_HLS_part=%d", r.P)
				}
			}
			r.URL = name + "?" + q
		}
		r.q = hx.Start(h.M.Handle, r.URL, nil)
		reqs = append(reqs, r)
		res.obs["requests."+r.Class]++
	}

	finish := func(r *llReq, step int) {
		r.finished = true
		r.doneStep = step
		resp := r.q.Resp
		s := states[r.Stream]
		if resp.Panic != "" {
			fail("panic", "request %s panicked: %s", r.URL, resp.Panic)
			return
		}
		parked := r.q.Parks() > 0
		if parked {
			res.obs["requests_that_parked"]++
		}
		switch r.Class {
		case "hint":
			if resp.Status != 200 {
				fail("hint-status", "preload hint %s (issued step %d) returned status %d", r.URL, r.IssueStep, resp.Status)
				return
			}
			// body must be the part as later listed
			pr := h.GetNow(r.URL)
			if pr == nil || pr.Status != 200 || !bytes.Equal(pr.Body, resp.Body) {
				fail("hint-body", "preload hint %s returned %d bytes, the published part has %d", r.URL, len(resp.Body), lenBody(pr))
			}
			if len(resp.Body) == 0 {
				fail("hint-body", "preload hint %s returned an empty body", r.URL)
			}
			partBody[r.URL] = resp.Body
			res.obs["hints_checked"]++
			return
		case "malformed":
			if resp.Status != 400 || parked {
				fail("malformed", "malformed request %s: status %d parked=%v (expected immediate 400)", r.URL, resp.Status, parked)
			}
			return
		}
		switch resp.Status {
		case 400:
			okReject := false
			if r.M > r.issueOpen+1 || r.M <= r.issueMS {
				okReject = true
			}
			// the window may have moved while the request was parked
			if s != nil && s.ok && r.M <= s.ms {
				okReject = true
			}
			if !okReject {
				fail("rejected/"+r.Class, "request %s (class %s, issued at step %d with MEDIA-SEQUENCE %d, open segment %d) was rejected with 400", r.URL, r.Class, r.IssueStep, r.issueMS, r.issueOpen)
			} else if parked && !(s != nil && r.M <= s.ms) {
				fail("late-reject", "request %s parked before being rejected", r.URL)
			}
			res.obs["rejections_checked"]++
		case 200:
			if r.HasM && r.M > r.issueOpen+1 {
				// more than two past the last complete segment when it arrived: "an immediate 400",
				// not a request that is parked until the stream gets there
				fail("far-not-rejected", "request %s (issued at step %d with open segment %d: _HLS_msn is more than two past the last complete segment) was answered 200 at step %d (parked=%v) instead of being rejected at once", r.URL, r.IssueStep, r.issueOpen, step, parked)
			}
			pl := m3u8x.Parse(resp.Body)
			if pl.Media == nil {
				fail("body", "request %s returned 200 with an unparsable playlist", r.URL)
				return
			}
			rs := stateOf(pl.Media)
			m, p := r.M, r.P
			sat := false
			if !r.HasP {
				sat = m < rs.open && (rs.listed[m] || m < rs.ms)
			} else {
				for hops := 0; hops < 64; hops++ {
					if m == rs.open {
						sat = p < rs.parts[m]
						break
					}
					if m > rs.open {
						break
					}
					n, ok := partsHist[r.Stream][m]
					if rs.parts[m] >= 0 {
						n, ok = rs.parts[m], true
					}
					if rs.gap[m] {
						n, ok = 0, true
					}
					if !ok {
						sat = true // cannot tell: older complete segment whose parts are not listed
						break
					}
					if p < n {
						sat = true
						break
					}
					m, p = m+1, 0
				}
			}
			if !sat {
				want := fmt.Sprintf("complete segment %d", r.M)
				if r.HasP {
					want = fmt.Sprintf("part %d of segment %d", r.P, r.M)
				}
				fail("premature/"+r.Class, "request %s (class %s) was answered with a playlist that does not contain %s (it lists segments %d..%d and %d parts of the open one)", r.URL, r.Class, want, rs.ms, rs.open-1, rs.parts[rs.open])
			}
			for _, u := range allURIs(pl.Media) {
				if strings.Contains(u, "_HLS_") {
					fail("hls-param-leak", "response to %s lists URI %s", r.URL, u)
				}
				if c.Query != "" && !sameQuery(u, c.Query) && u != "gap.mp4" {
					fail("query-lost", "response to %s lists URI %s without the request's query %q", r.URL, u, c.Query)
				}
			}
			res.obs["blocking_responses_checked"]++
		default:
			fail("status/"+r.Class, "request %s returned status %d", r.URL, resp.Status)
		}
	}

	settle := func(step int, rotated bool) {
		for _, r := range reqs {
			if r.finished {
				continue
			}
			isNew := r.IssueStep == step && r.parksSeen == 0 && r.q.Parks() == 0 && !r.q.IsDone()
			if !rotated && !isNew && !r.q.IsDone() && r.parksSeen > 0 {
				continue
			}
			if noWake && !isNew && !r.q.IsDone() {
				continue
			}
			st := r.q.Wait(r.parksSeen, watchdog)
			switch st {
			case hx.Done:
				finish(r, step)
			case hx.Parked:
				r.parksSeen = r.q.Parks()
			default:
				sat, known := r.satisfiable(states[r.Stream], partsHist[r.Stream])
				if sat && known {
					fail("lost-wakeup/"+r.Class, "request %s is satisfiable after step %d but its handler never woke up (parked in cond.Wait)", r.URL, step)
				} else {
					res.obs["waiters_not_woken_by_rotation"]++
				}
				noWake = true
			}
		}
		// liveness: nobody may stay parked although satisfiable
		for _, r := range reqs {
			if r.finished || !r.q.IsParked() {
				continue
			}
			sat, known := r.satisfiable(states[r.Stream], partsHist[r.Stream])
			if sat && known {
				r.finished = true
				fail("blocked/"+r.Class, "request %s (class %s, issued at step %d) is still blocked after step %d although the playlist now has what it asks for (open segment %d with %d parts)", r.URL, r.Class, r.IssueStep, step, states[r.Stream].open, states[r.Stream].parts[states[r.Stream].open])
			}
		}
	}

	classes := []string{"expired", "oldest", "gap", "complete", "complete", "open", "open", "open", "next", "far", "malformed", "hint", "hint"}
	for step := -1; step < len(c.Writes); step++ {
		var werr error
		if step >= 0 {
			werr = h.DoWrite(step)
			if werr == muxrun.ErrWriteStuck {
				// the muxer is deadlocked: every request still pending would only time out
				fail("hang", "%s", h.Hangs[len(h.Hangs)-1])
				return res
			}
			if werr != nil {
				break
			}
		}
		r := h.Observe(step, werr, opts)
		if len(h.Hangs) > 0 {
			fail("hang", "%s", h.Hangs[0])
			break
		}
		rotated := len(r.Rotated) > 0
		for _, id := range h.StreamIDs {
			so := r.Streams[id]
			if so != nil && so.PL != nil && so.PL.Media != nil {
				st := stateOf(so.PL.Media)
				states[id] = st
				for m, n := range st.parts {
					if m < st.open && n >= 0 {
						partsHist[id][m] = n
					}
				}
				if prev := st.open - 1; st.parts[prev] < 0 && !st.gap[prev] {
					// cannot happen: the last two segments list their parts
					_ = prev
				}
			}
		}
		settle(step, rotated)
		// delta update check on a quiet muxer
		if rng.Intn(25) == 0 {
			id := h.StreamIDs[rng.Intn(len(h.StreamIDs))]
			if st := states[id]; st != nil && st.ok {
				checkDelta(h, c, id, res, fail)
			}
		}
		// issue new requests
		nNew := 0
		if rng.Intn(4) == 0 {
			nNew = 1 + rng.Intn(3)
		}
		for k := 0; k < nNew; k++ {
			id := h.StreamIDs[rng.Intn(len(h.StreamIDs))]
			cl := classes[rng.Intn(len(classes))]
			n0 := len(reqs)
			issue(step, id, cl)
			if len(reqs) > n0 {
				nr := reqs[n0]
				nr.issueMS, nr.issueOpen = states[id].ms, states[id].open
			}
		}
		settle(step, false)
	}
	// end: requests still pending must be unsatisfiable
	for _, r := range reqs {
		if !r.finished && r.q.IsDone() {
			finish(r, len(c.Writes))
		}
	}
	pend := 0
	for _, r := range reqs {
		if !r.finished {
			pend++
			if r.HasM && r.Class != "malformed" && r.M > r.issueOpen+1 {
				fail("far-not-rejected", "request %s (issued at step %d with open segment %d: _HLS_msn is more than two past the last complete segment) is still parked at the end of the history instead of having been rejected at once", r.URL, r.IssueStep, r.issueOpen)
			}
		}
	}
	res.obs["requests_pending_at_end"] += pend
	res.obs["histories"]++
	res.obs["requests"] += len(reqs)
	var cls []string
	for _, r := range reqs {
		cls = append(cls, r.Class)
	}
	sort.Strings(cls)
	res.sig = fmt.Sprintf("%d|%s", len(c.Tracks), strings.Join(cls, ","))
	if len(reqs) > 0 {
		for i, r := range reqs {
			if i < 6 {
				res.samples = append(res.samples, fmt.Sprintf("step %d %s %s -> status %d at step %d (parked %d times)", r.IssueStep, r.Class, r.URL, statusOf(r), r.doneStep, r.q.Parks()))
			}
		}
	}
	return res
}

// sameQuery reports whether the query of uri carries exactly the parameters of want
// (compared after decoding: the muxer may re-encode the query string).
func sameQuery(uri, want string) bool {
	i := strings.IndexByte(uri, '?')
	if i < 0 {
		return false
	}
	a, err1 := url.ParseQuery(uri[i+1:])
	b, err2 := url.ParseQuery(want)
	return err1 == nil && err2 == nil && fmt.Sprint(a) == fmt.Sprint(b)
}

func statusOf(r *llReq) int {
	if r.q.IsDone() && r.q.Resp != nil {
		return r.q.Resp.Status
	}
	return -1
}

func lenBody(r *hx.Resp) int {
	if r == nil {
		return -1
	}
	return len(r.Body)
}

func allURIs(pl *m3u8x.Media) []string {
	var out []string
	if pl.HasMap {
		out = append(out, pl.MapURI)
	}
	for _, s := range pl.Segments {
		out = append(out, s.URI)
		for _, p := range s.Parts {
			out = append(out, p.URI)
		}
	}
	for _, p := range pl.TrailingParts {
		out = append(out, p.URI)
	}
	if pl.Hint != nil {
		out = append(out, pl.Hint.URI)
	}
	return out
}

func segLine(s m3u8x.Segment) string {
	var ps []string
	for _, p := range s.Parts {
		ps = append(ps, fmt.Sprintf("%s/%s/%v", p.URI, p.DurRaw, p.Independent))
	}
	return fmt.Sprintf("%d|%s|%s|%v|%s|%v", s.MSN, s.URI, s.ExtinfRaw, s.Gap, s.PDTRaw, ps)
}

func checkDelta(h *muxrun.History, c *media.Case, id string, res *c06Result, fail func(key, f string, a ...any)) {
	name := id + "_stream.m3u8"
	q := ""
	if c.Query != "" {
		q = c.Query + "&"
	}
	full := h.GetNow(name + "?" + strings.TrimSuffix(q, "&"))
	if c.Query == "" {
		full = h.GetNow(name)
	}
	for _, dir := range []string{"YES", "v2"} {
		d := h.GetNow(name + "?" + q + "_HLS_skip=" + dir)
		if full == nil || d == nil || !full.OK() || !d.OK() {
			fail("delta-status", "delta update request failed (full %v, delta %v)", full != nil && full.OK(), d != nil && d.OK())
			return
		}
		fp, dp := m3u8x.Parse(full.Body), m3u8x.Parse(d.Body)
		if fp.Media == nil || dp.Media == nil {
			fail("delta-parse", "delta update does not parse")
			return
		}
		f, dl := fp.Media, dp.Media
		res.obs["delta_updates_checked"]++
		if dl.Skip == nil {
			fail("delta-skip", "_HLS_skip=%s response carries no EXT-X-SKIP", dir)
			continue
		}
		n := *dl.Skip
		if n > 0 {
			res.obs["delta_updates_skipping"]++
		}
		if dl.HasMap {
			fail("delta-map", "_HLS_skip=%s response still carries EXT-X-MAP", dir)
		}
		if n < 0 || n > len(f.Segments) || len(dl.Segments) != len(f.Segments)-n {
			fail("delta-count", "_HLS_skip=%s: SKIPPED-SEGMENTS=%d, full playlist has %d segments, delta lists %d", dir, n, len(f.Segments), len(dl.Segments))
			continue
		}
		if dl.MediaSequence != f.MediaSequence || dl.TargetDuration != f.TargetDuration {
			fail("delta-header", "_HLS_skip=%s: header differs (MEDIA-SEQUENCE %d vs %d, TARGETDURATION %d vs %d)", dir, dl.MediaSequence, f.MediaSequence, dl.TargetDuration, f.TargetDuration)
		}
		for i := range dl.Segments {
			if segLine(dl.Segments[i]) != segLine(f.Segments[n+i]) {
				fail("delta-segments", "_HLS_skip=%s: segment %d of the delta is %s, full playlist has %s", dir, i, segLine(dl.Segments[i]), segLine(f.Segments[n+i]))
				break
			}
		}
		if fmt.Sprint(dl.TrailingParts) != fmt.Sprint(f.TrailingParts) || (dl.Hint == nil) != (f.Hint == nil) || (dl.Hint != nil && *dl.Hint != *f.Hint) {
			fail("delta-tail", "_HLS_skip=%s: trailing parts / preload hint differ from the full playlist", dir)
		}
		// the skipped segments must lie before the skip boundary
		if f.ServerControl != nil && f.ServerControl.CanSkipUntilNS != nil {
			var tail int64
			for _, s := range f.Segments[n:] {
				tail += s.DurNS
			}
			_ = tail
		}
		// the same delta update must come back when the request is also a blocking reload that can be
		// answered at once: for the last complete segment, and for part 0 of the open one
		var combos []string
		if len(f.Segments) > 0 {
			combos = append(combos, fmt.Sprintf("_HLS_msn=%d", f.Segments[len(f.Segments)-1].MSN))
			if len(f.TrailingParts) > 0 {
				combos = append(combos, fmt.Sprintf("_HLS_msn=%d&_HLS_part=0", f.Segments[len(f.Segments)-1].MSN+1))
			}
		}
		for _, cb := range combos {
			r := h.GetNow(name + "?" + q + cb + "&_HLS_skip=" + dir)
			if r == nil {
				continue
			}
			res.obs["delta_updates_with_blocking_reload"]++
			if !r.OK() {
				fail("delta-reload-status", "%s&_HLS_skip=%s: status %d", cb, dir, r.Status)
			} else if string(r.Body) != string(d.Body) {
				rp := m3u8x.Parse(r.Body)
				what := "differs from the plain delta update of the same instant"
				if rp.Media != nil && rp.Media.Skip == nil {
					what = "is the full playlist (no EXT-X-SKIP)"
				}
				fail("delta-reload", "%s&_HLS_skip=%s: the response %s", cb, dir, what)
			}
		}
		// reserved _HLS_ directives this server does not implement (players send _HLS_primary_id,
		// _HLS_start_offset, the old _HLS_push ...) are directives all the same: never copied
		for _, extra := range []string{"_HLS_primary_id=0123abcd", "_HLS_push=1&_HLS_report=a%20b"} {
			for _, withSkip := range []bool{false, true} {
				u := name + "?" + q + extra
				if withSkip {
					u += "&_HLS_skip=" + dir
				}
				r := h.GetNow(u)
				if r == nil || !r.OK() {
					continue
				}
				rp := m3u8x.Parse(r.Body)
				if rp.Media == nil {
					continue
				}
				res.obs["requests_with_other_hls_directives"]++
				for _, lu := range allURIs(rp.Media) {
					if strings.Contains(lu, "_HLS_") {
						fail("hls-param-leak", "response to %s lists URI %s", u, lu)
						break
					}
					if c.Query != "" && !sameQuery(lu, c.Query) && lu != "gap.mp4" {
						fail("query-lost", "response to %s lists URI %s without the request's query %q", u, lu, c.Query)
						break
					}
				}
			}
		}
		for _, u := range allURIs(dl) {
			if strings.Contains(u, "_HLS_") {
				fail("hls-param-leak", "delta update lists URI %s", u)
			}
			if c.Query != "" && !sameQuery(u, c.Query) && u != "gap.mp4" {
				fail("query-lost", "delta update lists URI %s without the request's query %q", u, c.Query)
			}
		}
	}
}

func checkC06(tier string, seed int64) int {
	rep := ev.NewReporter("C06")
	n := 192
	if tier == "thorough" {
		n = 6000
	}
	var mu sync.Mutex
	obs := map[string]int{}
	sigs := map[string]bool{}
	var samples []any
	ch := make(chan int)
	var wg sync.WaitGroup
	for w := 0; w < runtime.NumCPU(); w++ {
		wg.Add(1)
		go func(slot int) {
			defer wg.Done()
			for idx := range ch {
				ref := caseRef{"C06", seed, idx, tier}
				rep.Current(slot, ref)
				r := runC06History(seed, idx, tier)
				mu.Lock()
				for k, v := range r.obs {
					obs[k] += v
				}
				if r.obs["requests"] >= 5 {
					sigs[r.sig] = true
				}
				if len(samples) < 3 && len(r.samples) > 0 {
					samples = append(samples, map[string]any{"history": idx, "requests": r.samples})
				}
				mu.Unlock()
				for _, v := range r.viol {
					k, m := splitKM(v)
					rep.Report(k, fmt.Sprintf("history %d: %s", idx, m), ref)
				}
			}
		}(w)
	}
	for i := 0; i < n; i++ {
		ch <- i
	}
	close(ch)
	wg.Wait()
	// free-running mode: the C08 stress runs (Low-Latency variant only) with the safety clause
	// "a 200 response contains what was asked for" evaluated on every blocking request
	nFree := 24
	if tier == "thorough" {
		nFree = 300
	}
	for i := 0; i < nFree; i++ {
		idx := 2 + 3*i // variant = 1 + idx%3 = 3
		r := runC08Case(seed+5000, idx, tier)
		obs["free_running_runs"]++
		obs["free_running_blocking_responses"] += r.obs["blocking_responses_checked"]
		for _, v := range r.c06viol {
			k, m := splitKM(v)
			rep.Report(k, fmt.Sprintf("free-running run %d: %s", idx, m), caseRef{"C08", seed + 5000, idx, tier})
		}
	}
	var inconclusive []string
	for _, cl := range []string{"expired", "oldest", "gap", "complete", "complete-part", "complete-past-end", "open-nopart", "open-published", "open-next-part", "open-beyond", "next", "far", "malformed", "hint"} {
		if obs["requests."+cl] < 2 {
			msg := fmt.Sprintf("INCONCLUSIVE property=C06 request class %s exercised %d times", cl, obs["requests."+cl])
			fmt.Println(msg)
			inconclusive = append(inconclusive, msg)
		}
	}
	if obs["requests_that_parked"] < 20 {
		msg := fmt.Sprintf("INCONCLUSIVE property=C06 only %d requests really parked", obs["requests_that_parked"])
		fmt.Println(msg)
		inconclusive = append(inconclusive, msg)
	}
	e := &ev.Evidence{
		PropertyID: "C06", Tier: tier, Seed: seed, Level: "exploration",
		Coverage: map[string]any{
			"evaluations": n, "distinct_nontrivial": len(sigs),
			"rule":               "(1) step-controlled histories: one writer advanced one Write at a time on a Low-Latency muxer; requests of every class of DESIGN appendix A issued at seeded steps on any stream; after each step the monitor waits (hook wait.park / completion) until every woken waiter re-parked or returned, then compares with the playlist state of that step; non-trivial = >= 5 requests; distinct = distinct multisets of request classes; (2) free-running stress runs (writer and 4-15 readers unsynchronised, seeded delays at the hook points): every 200 answer to a blocking request must contain the requested part",
			"samples":            samples,
			"observed":           obs,
			"inconclusive":       inconclusive,
			"known_findings_hit": rep.KnownHits(),
		},
		Assumptions: []string{
			"a request for the oldest listed media sequence number may be rejected or served (the pinned TestMuxerExpiredSegment requires 400)",
			"'answered without needing further input' is decided by state: request satisfiable from the playlist of step k and still parked after every waiter woken by step k has re-parked",
			"race detector on: any report in this run is counted by the C08 check, not here",
		},
		WallS: rep.Elapsed(), Violations: rep.NewViolations(),
	}
	e.Write()
	fmt.Printf("C06: %d histories, %d requests (%d parked), %d distinct, %d new violations, %d known findings, %.1fs\n", n, obs["requests"], obs["requests_that_parked"], len(sigs), rep.NewViolations(), len(rep.KnownHits()), rep.Elapsed())
	if rep.NewViolations() > 0 {
		return 1
	}
	return 0
}

func init() {
	checks["C06"] = checkC06
	replayers["C06"] = func(path string) int {
		ref, err := readCaseRef(path)
		if err != nil {
			fmt.Println(err)
			return 2
		}
		r := runC06History(ref.Seed, ref.Index, ref.Tier)
		for _, s := range r.samples {
			fmt.Println(s)
		}
		for _, v := range r.viol {
			fmt.Println("VIOLATED:", v)
		}
		if len(r.viol) > 0 {
			return 1
		}
		fmt.Println("held on this history")
		return 0
	}
}
