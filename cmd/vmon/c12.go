package main

import (
	"errors"
	"fmt"
	"math/rand"
	"net/http"
	"os"
	"runtime"
	"sort"
	"strings"
	"sync"
	"sync/atomic"
	"time"

	"github.com/bluenviron/gohlslib/v2"
	"github.com/bluenviron/mediacommon/v2/pkg/codecs/mpeg4audio"
	"verif/internal/clirun"
	"verif/internal/ev"
	"verif/internal/media"
	"verif/internal/origin"
	"verif/internal/racelog"
)

// C12 — clean termination: fault x request index and Close point enumeration.

type c12Case struct {
	Property string `json:"property"`
	Script   string `json:"script"` // ts | fmp4 | fmp4-multi | ll
	Fault    string `json:"fault"`  // none | status404 | status500 | transport | stall | truncate | ontracks
	At       int    `json:"at"`     // request index of the fault
	Close    string `json:"close"`  // none | before-first | at-request | in-ontracks | in-ondata | pacing | after-end
	CloseAt  int    `json:"close_at"`
	Mode     string `json:"mode"` // once | thrice | concurrent
}

func (c c12Case) String() string {
	return fmt.Sprintf("%s fault=%s@%d close=%s@%d/%s", c.Script, c.Fault, c.At, c.Close, c.CloseAt, c.Mode)
}

// buildScript creates the deterministic origin of a baseline script.
func buildScript(name string) (*origin.Site, string) {
	site := origin.NewSite()
	rng := rand.New(rand.NewSource(int64(len(name)) * 7919))
	base := "http://c12.example.com/" + name + "/"
	aac := mpeg4audio.Config{Type: 2, SampleRate: 48000, ChannelCount: 2}
	switch name {
	case "ts":
		tr := []*origin.Track{{Kind: media.H264, TimeScale: 90000, Params: testParamsH264, Base: 900000, SampleDur: 1800},
			{Kind: media.AAC, TimeScale: 90000, AAC: aac, Base: 900000, SampleDur: 1920}}
		mustRendition(rng, site, base+"stream.m3u8", "ts", tr, 10, 5)
		return site, base + "stream.m3u8"
	case "ts-long":
		// two MPEG-TS segments of 130 video units each: more than the sample queue between the
		// stream processor and a track processor holds (100), so the stream processor is regularly
		// blocked handing samples over while the track processor paces them out
		tr := []*origin.Track{{Kind: media.H264, TimeScale: 90000, Params: testParamsH264, Base: 900000, SampleDur: 900},
			{Kind: media.AAC, TimeScale: 90000, AAC: aac, Base: 900000, SampleDur: 1920}}
		mustRenditionN(rng, site, base+"stream.m3u8", "ts", tr, 30, 2, 130)
		return site, base + "stream.m3u8"
	case "fmp4":
		tr := []*origin.Track{{Kind: media.H264, TimeScale: 90000, Params: testParamsH264, Base: 900000, SampleDur: 1800},
			{Kind: media.AAC, TimeScale: 48000, AAC: aac, Base: 480000, SampleDur: 1024}}
		mustRendition(rng, site, base+"stream.m3u8", "fmp4", tr, 10, 5)
		return site, base + "stream.m3u8"
	case "fmp4-multi", "fmp4-multi-slowlead":
		mustRendition(rng, site, base+"video.m3u8", "fmp4", []*origin.Track{{Kind: media.H264, TimeScale: 90000, Params: testParamsH264, Base: 900000, SampleDur: 1800}}, 10, 5)
		mustRendition(rng, site, base+"audio.m3u8", "fmp4", []*origin.Track{{Kind: media.AAC, TimeScale: 48000, AAC: aac, Base: 480000, SampleDur: 1024}}, 20, 5)
		site.Static[base+"index.m3u8"] = "#EXTM3U\n#EXT-X-VERSION:6\n#EXT-X-MEDIA:TYPE=AUDIO,GROUP-ID=\"a\",NAME=\"a\",DEFAULT=YES,URI=\"audio.m3u8\"\n" +
			"#EXT-X-STREAM-INF:BANDWIDTH=1000,CODECS=\"avc1.42c028,mp4a.40.2\",AUDIO=\"a\"\nvideo.m3u8\n"
		return site, base + "index.m3u8"
	case "ts-multi":
		// MPEG-TS variant plus an MPEG-TS audio rendition: two stream processors share one time base
		mustRendition(rng, site, base+"video.m3u8", "ts", []*origin.Track{{Kind: media.H264, TimeScale: 90000, Params: testParamsH264, Base: 900000, SampleDur: 1800}}, 10, 5)
		mustRendition(rng, site, base+"audio.m3u8", "ts", []*origin.Track{{Kind: media.AAC, TimeScale: 90000, AAC: aac, Base: 900000, SampleDur: 1920}}, 20, 5)
		site.Static[base+"index.m3u8"] = "#EXTM3U\n#EXT-X-VERSION:6\n#EXT-X-MEDIA:TYPE=AUDIO,GROUP-ID=\"a\",NAME=\"a\",DEFAULT=YES,URI=\"audio.m3u8\"\n" +
			"#EXT-X-STREAM-INF:BANDWIDTH=1000,CODECS=\"avc1.42c028,mp4a.40.2\",AUDIO=\"a\"\nvideo.m3u8\n"
		return site, base + "index.m3u8"
	case "ll":
		plURL := base + "stream.m3u8"
		tracks := []*origin.Track{{Kind: media.H264, TimeScale: 90000, Params: testParamsH264, Base: 900000, SampleDur: 1800}}
		st := &origin.Stream{Container: "fmp4", Tracks: tracks}
		nParts := 5
		if err := st.Build(nParts+3, 4, 40); err != nil {
			panic(err)
		}
		pl := &origin.Playlist{URL: plURL, TargetDuration: 1, Version: 9, CanBlockReload: true, PartTargetNS: 80e6, MapURI: "init.mp4", CanSkipUntilNS: 6e9}
		site.Files[origin.Resolve(plURL, "init.mp4")] = st.Init
		site.Kinds[origin.Resolve(plURL, "init.mp4")] = "init"
		site.Files[origin.Resolve(plURL, "seg0.mp4")] = append(append(append([]byte{}, st.Segs[0]...), st.Segs[1]...), st.Segs[2]...)
		pl.Segs = []origin.Seg{{URI: "seg0.mp4", DurNS: 3 * st.SegDurNS[0]}}
		for k := 0; k <= nParts; k++ {
			pl.History = append(pl.History, origin.Window{First: 0, Count: 1})
			var parts []origin.Part
			for j := 0; j < k; j++ {
				parts = append(parts, origin.Part{URI: fmt.Sprintf("part_%d.mp4", j), DurNS: st.SegDurNS[0]})
			}
			pl.LLParts = append(pl.LLParts, parts)
			if k < nParts {
				u := fmt.Sprintf("part_%d.mp4", k)
				pl.LLHint = append(pl.LLHint, u)
				site.Files[origin.Resolve(plURL, u)] = st.Segs[3+k]
				site.Kinds[origin.Resolve(plURL, u)] = "part"
			} else {
				pl.LLHint = append(pl.LLHint, "")
			}
		}
		site.Playlists[plURL] = pl
		return site, plURL
	}
	panic("unknown script")
}

// mustRendition registers a VOD playlist of nSeg segments.
func mustRendition(rng *rand.Rand, site *origin.Site, plURL, container string, tracks []*origin.Track, tagBase, nSeg int) {
	mustRenditionN(rng, site, plURL, container, tracks, tagBase, nSeg, 4)
}

func mustRenditionN(rng *rand.Rand, site *origin.Site, plURL, container string, tracks []*origin.Track, tagBase, nSeg, perSeg int) {
	st := &origin.Stream{Container: container, Tracks: tracks}
	if err := st.Build(nSeg, perSeg, tagBase); err != nil {
		panic(err)
	}
	pl := &origin.Playlist{URL: plURL, TargetDuration: 1, Type: "VOD"}
	if container == "fmp4" {
		pl.MapURI = fmt.Sprintf("r%d_init.mp4", tagBase)
		site.Files[origin.Resolve(plURL, pl.MapURI)] = st.Init
		site.Kinds[origin.Resolve(plURL, pl.MapURI)] = "init"
	}
	for i := 0; i < nSeg; i++ {
		u := fmt.Sprintf("r%d_seg_%d.bin", tagBase, i)
		site.Files[origin.Resolve(plURL, u)] = st.Segs[i]
		pl.Segs = append(pl.Segs, origin.Seg{URI: u, DurNS: st.SegDurNS[i]})
	}
	pl.History = []origin.Window{{First: 0, Count: nSeg, Endlist: true}}
	site.Playlists[plURL] = pl
	_ = rng
}

var errInjectedOnTracks = errors.New("injected OnTracks error")

type c12Outcome struct {
	viol      []string
	requests  int
	callbacks int
	units     int
	waitErr   string
	ended     bool
}

func runC12Case(c c12Case) *c12Outcome {
	out := &c12Outcome{}
	fail := func(key, f string, a ...any) {
		out.viol = append(out.viol, "C12/"+key+"|"+fmt.Sprintf(f, a...))
	}
	site, entry := buildScript(c.Script)
	srv := &origin.Server{H: site.Handler(), Faults: map[int]origin.Fault{}}
	if c.Script == "fmp4-multi-slowlead" {
		// the leading (video) stream's segments arrive 40 ms late: the audio rendition is always ahead
		// and waits for the leading stream's time origin when a fault or Close ends the client
		base := srv.H
		srv.H = func(req *http.Request, i int) origin.Response {
			r := base(req, i)
			if strings.Contains(req.URL.Path, "r10_seg_") && r.Status == 200 || strings.Contains(req.URL.Path, "r10_seg_") && r.Status == 0 {
				ch := make(chan struct{})
				go func() { time.Sleep(40 * time.Millisecond); close(ch) }()
				r.Block = ch
			}
			return r
		}
	}
	if c.Fault != "none" && c.Fault != "ontracks" {
		srv.Faults[c.At] = origin.Fault{Kind: c.Fault}
	}
	run := clirun.New(entry, srv.Client())
	var closed atomic.Bool
	var closeStuck atomic.Bool
	// Close must return wherever it is called from (a user callback included): it runs in its own
	// goroutine and the caller waits for it, but not for ever
	guardedClose := func(n int) {
		done := make(chan struct{})
		go func() {
			defer close(done)
			for i := 0; i < n; i++ {
				run.C.Close()
			}
		}()
		select {
		case <-done:
		case <-time.After(6 * time.Second):
			closeStuck.Store(true)
		}
	}
	doClose := func() {
		closed.Store(true)
		switch c.Mode {
		case "thrice":
			guardedClose(3)
		case "concurrent":
			var wg sync.WaitGroup
			for i := 0; i < 2; i++ {
				wg.Add(1)
				go func() { defer wg.Done(); guardedClose(1) }()
			}
			wg.Wait()
		default:
			guardedClose(1)
		}
	}
	if c.Fault == "ontracks" {
		run.OnTracksErr = errInjectedOnTracks
	}
	switch c.Close {
	case "at-request":
		srv.OnRequest = func(idx int, _ *http.Request) {
			if idx == c.CloseAt && !closed.Load() {
				doClose()
			}
		}
	case "in-ontracks":
		run.OnTracksHook = func(*clirun.Run) { doClose() }
	case "in-ondata":
		var n atomic.Int32
		run.OnUnitHook = func(_ *clirun.Run, _ *clirun.Unit) {
			if int(n.Add(1)) == c.CloseAt+1 {
				doClose()
			}
		}
	case "pacing":
		var n atomic.Int32
		run.OnUnitHook = func(_ *clirun.Run, _ *clirun.Unit) {
			if int(n.Add(1)) == c.CloseAt+1 {
				go func() {
					time.Sleep(3 * time.Millisecond) // the next unit is 10-20 ms of media away: the client is sleeping
					doClose()
				}()
			}
		}
	}
	if err := run.C.Start(); err != nil {
		fail("harness", "start: %v", err)
		return out
	}
	if c.Close == "before-first" {
		doClose()
	}
	watchdog := 15 * time.Second
	// a stalled body only ends when the client is closed: close once the stall is in effect
	if c.Fault == "stall" && c.Close == "none" {
		go func() {
			deadline := time.Now().Add(5 * time.Second)
			for time.Now().Before(deadline) {
				if srv.Stalls.Load() > 0 {
					time.Sleep(2 * time.Millisecond)
					doClose()
					return
				}
				if srv.Count() > c.At+1 && srv.Stalls.Load() == 0 {
					// the faulty request was not reached / body not read
				}
				time.Sleep(time.Millisecond)
			}
			doClose()
		}()
	}
	ok := run.WaitResult(watchdog)
	if closeStuck.Load() {
		fail("close-blocks", "%s: Close() did not return within 6 s (called %s)", c, c.Close)
	}
	if !ok {
		fail("no-result", "%s: Wait() yielded nothing (requests so far %d, delivered %d)", c, srv.Count(), run.Delivered())
		guardedClose(1)
		run.WaitResult(5 * time.Second)
		return out
	}
	out.ended = true
	out.waitErr = fmt.Sprint(run.WaitErr)
	if c.Close == "after-end" {
		doClose()
		time.Sleep(2 * time.Millisecond)
	}
	if run.SecondRecv != "" {
		fail("second-value", "%s: the Wait() channel yielded more than once (%s)", c, run.SecondRecv)
	}
	if run.WaitErr == nil {
		fail("nil-error", "%s: Wait() yielded a nil error", c)
	}
	// which error
	log := srv.Log()
	faultHit := false
	for _, e := range log {
		if e.Index == c.At && e.Fault != "" && e.Fault != "cancelled" {
			faultHit = true
		}
	}
	isEOS := errors.Is(run.WaitErr, gohlslib.ErrClientEOS)
	switch {
	case c.Fault == "ontracks" && !closed.Load():
		// (the Low-Latency script ends by itself with an error as soon as the hint disappears,
		// which may happen before the tracks are negotiated: that error is then the first one)
		if !errors.Is(run.WaitErr, errInjectedOnTracks) && !(c.Script == "ll" && run.WaitErr != nil && !isEOS) {
			fail("ontracks-error", "%s: OnTracks returned an error but Wait() yielded %v", c, run.WaitErr)
		}
	case (c.Fault == "status404" || c.Fault == "status500" || c.Fault == "transport" || c.Fault == "transport-ctx" || c.Fault == "transport-deadline" || c.Fault == "body-ctx" || c.Fault == "status503-stall") && faultHit && !closed.Load():
		if isEOS || run.WaitErr == nil {
			fail("http-error-lost", "%s: request %d failed (%s) but Wait() yielded %v", c, c.At, c.Fault, run.WaitErr)
		}
		if c.Fault == "status404" && !strings.Contains(fmt.Sprint(run.WaitErr), "404") || c.Fault == "status500" && !strings.Contains(fmt.Sprint(run.WaitErr), "500") || c.Fault == "status503-stall" && !strings.Contains(fmt.Sprint(run.WaitErr), "503") {
			fail("http-error-other", "%s: request %d failed with %s but Wait() yielded %q", c, c.At, c.Fault, run.WaitErr)
		}
	case c.Fault == "none" && c.Close == "none":
		if c.Script != "ll" && !isEOS {
			fail("baseline-end", "%s: baseline script ended with %v", c, run.WaitErr)
		}
	}
	if closed.Load() && c.Close != "after-end" && isEOS && c.Close != "at-request" && c.Close != "in-ondata" && c.Close != "pacing" {
		fail("eos-after-close", "%s: closed before the end of the stream but Wait() yielded ErrClientEOS", c)
	}
	// no callback after the value was yielded
	time.Sleep(time.Millisecond)
	if after, last := run.CallbackAfter(run.WaitStamp); after {
		fail("callback-after-end", "%s: callback %s ran after Wait() had yielded (stamp %d)", c, last, run.WaitStamp)
	}
	out.requests = len(log)
	out.units = run.Delivered()
	return out
}

// enumerate builds the exhaustive case list of one script from its baseline.
func enumerateC12(script string, baseRequests, baseUnits int, tier string) []c12Case {
	var cases []c12Case
	cases = append(cases, c12Case{"C12", script, "none", 0, "none", 0, "once"})
	for _, f := range []string{"status404", "status500", "transport", "stall", "truncate", "transport-ctx", "transport-deadline", "body-ctx", "status503-stall"} {
		for i := 0; i < baseRequests; i++ {
			cases = append(cases, c12Case{"C12", script, f, i, "none", 0, "once"})
		}
	}
	cases = append(cases, c12Case{"C12", script, "ontracks", 0, "none", 0, "once"})
	modes := []string{"once", "thrice", "concurrent"}
	for _, m := range modes {
		cases = append(cases, c12Case{"C12", script, "none", 0, "before-first", 0, m})
		cases = append(cases, c12Case{"C12", script, "none", 0, "in-ontracks", 0, m})
		cases = append(cases, c12Case{"C12", script, "none", 0, "after-end", 0, m})
		for i := 0; i < baseRequests; i++ {
			cases = append(cases, c12Case{"C12", script, "none", 0, "at-request", i, m})
		}
		step := 1
		if tier != "thorough" && baseUnits > 12 {
			step = baseUnits / 12
		}
		for j := 0; j < baseUnits; j += step {
			cases = append(cases, c12Case{"C12", script, "none", 0, "in-ondata", j, m})
			cases = append(cases, c12Case{"C12", script, "none", 0, "pacing", j, m})
		}
	}
	// fault and close combined: close while the faulty request is stalled is covered by "stall";
	// here: close during a request after an earlier truncated body
	for i := 0; i+1 < baseRequests; i += 2 {
		cases = append(cases, c12Case{"C12", script, "truncate", i, "at-request", i + 1, "once"})
	}
	return cases
}

func checkC12(tier string, seed int64) int {
	rep := ev.NewReporter("C12")
	scripts := []string{"ts", "fmp4", "fmp4-multi", "ll", "ts-long", "ts-multi", "fmp4-multi-slowlead"}
	obs := map[string]int{}
	sigs := map[string]bool{}
	var samples []any
	var all []c12Case
	for _, s := range scripts {
		b := runC12Case(c12Case{"C12", s, "none", 0, "none", 0, "once"})
		if !b.ended {
			rep.Report("C12/baseline", fmt.Sprintf("baseline script %s did not end: %v", s, b.viol), c12Case{Script: s})
			continue
		}
		obs["baseline_requests."+s] = b.requests
		obs["baseline_units."+s] = b.units
		all = append(all, enumerateC12(s, b.requests, b.units, tier)...)
	}
	// seeded shuffle so that batches mix scripts (the set is enumerated completely either way)
	rng := rand.New(rand.NewSource(seed))
	rng.Shuffle(len(all), func(i, j int) { all[i], all[j] = all[j], all[i] })
	if leak := clirun.CensusSettled(2 * time.Second); len(leak) > 0 {
		rep.Report("C12/leak/baseline", fmt.Sprintf("goroutines left after the baseline runs: %v", leak), map[string]any{"property": "C12"})
	}
	batch := 48
	var mu sync.Mutex
	for start := 0; start < len(all); start += batch {
		end := start + batch
		if end > len(all) {
			end = len(all)
		}
		var wg sync.WaitGroup
		for i := start; i < end; i++ {
			wg.Add(1)
			go func(c c12Case, slot int) {
				defer wg.Done()
				rep.Current(slot, c)
				o := runC12Case(c)
				mu.Lock()
				obs["cases"]++
				obs["cases.fault."+c.Fault]++
				obs["cases.close."+c.Close]++
				obs["cases.mode."+c.Mode]++
				if o.ended {
					obs["ended"]++
				}
				sigs[c.String()] = true
				if len(samples) < 5 && (c.Fault == "stall" || c.Close == "pacing") && len(samples) < 5 {
					samples = append(samples, map[string]any{"case": c, "wait": o.waitErr, "requests": o.requests, "delivered": o.units})
				}
				mu.Unlock()
				for _, v := range o.viol {
					k, m := splitKM(v)
					rep.Report(k, m, c)
				}
			}(all[i], i-start)
		}
		wg.Wait()
		// goroutine census after the whole batch has ended
		if leak := clirun.CensusSettled(2 * time.Second); len(leak) > 0 {
			obs["batches_with_leak"]++
			// pinpoint: re-run the members alone
			found := false
			for i := start; i < end; i++ {
				runC12Case(all[i])
				if l2 := clirun.CensusSettled(1500 * time.Millisecond); len(l2) > 0 {
					found = true
					rep.Report("C12/leak/"+leakKey(l2), fmt.Sprintf("%s: %d client goroutine(s) still alive after Wait() yielded: %s", all[i], len(l2), strings.Join(l2, " ;; ")), all[i])
					break
				}
			}
			if !found {
				rep.Report("C12/leak/"+leakKey(leak), fmt.Sprintf("batch %d..%d: %d client goroutine(s) still alive after every Wait() yielded: %s", start, end, len(leak), strings.Join(leak, " ;; ")), map[string]any{"property": "C12", "batch": all[start:end]})
			}
			// a leaked goroutine stays: stop here, everything after would be polluted
			break
		}
		obs["batches_census_clean"]++
	}
	races := 0
	prefix := ""
	for _, kv := range strings.Fields(os.Getenv("GORACE")) {
		if strings.HasPrefix(kv, "log_path=") {
			prefix = strings.TrimPrefix(kv, "log_path=")
		}
	}
	if prefix != "" {
		reports, total := racelog.Parse(prefix + "." + fmt.Sprint(os.Getpid()))
		races = total
		for _, r := range reports {
			if r.HarnessOnly {
				fmt.Printf("HARNESS-RACE (monitor defect, not a verdict about gohlslib): %s\n", r.Key)
				continue
			}
			path := ev.Root + "/replays/C12/race-" + strings.NewReplacer("/", "_", "|", "--", "*", "", "(", "", ")", "").Replace(r.Key) + ".txt"
			os.WriteFile(path, []byte(r.First), 0o644)
			rep.Report("C12/race/"+r.Key, fmt.Sprintf("data race (%d reports) between %s; report in %s", r.Count, r.Key, path), map[string]any{"property": "C12", "race_report": path})
		}
	}
	obs["race_reports"] = races
	if len(samples) == 0 {
		samples = append(samples, "none")
	}
	keys := make([]string, 0)
	for k := range obs {
		keys = append(keys, k)
	}
	sort.Strings(keys)
	e := &ev.Evidence{
		PropertyID: "C12", Tier: tier, Seed: seed, Level: "fault_enumeration",
		Coverage: map[string]any{
			"evaluations": obs["cases"], "distinct_nontrivial": len(sigs),
			"rule":               "four baseline scripts (MPEG-TS, fMP4 single playlist, fMP4 video + audio rendition, Low-Latency hints) with N requests and K delivered units each; enumerated completely per script: fault in {404, 500, transport error, transport error wrapping context.Canceled / context.DeadlineExceeded (the transport's own context, not the client's), body stalling until cancelled, truncated body, body failing half-way with an error wrapping context.Canceled} x request index 0..N-1, OnTracks error, Close at {before the first response, during request i for every i, inside OnTracks, inside the j-th OnData, during the pacing sleep after the j-th unit, after the end} x {once, three times, concurrently from two goroutines} (quick tier: every K/12-th unit); after each batch of 48 concurrent cases a goroutine census (runtime.Stack filtered to gohlslib client frames) must be empty; race detector on",
			"samples":            samples,
			"observed":           obs,
			"exhaustive":         tier == "thorough",
			"known_findings_hit": rep.KnownHits(),
		},
		Assumptions: []string{
			"'no goroutine still running' is decided by a census polled for at most 2 s after Wait() yielded; a goroutine that is parked in a gohlslib client frame in every poll is a leak",
			"a second value on the Wait() channel is looked for during 30 ms after the first",
		},
		WallS: rep.Elapsed(), Violations: rep.NewViolations(),
	}
	e.Write()
	fmt.Printf("C12: %d cases (%d enumerated), %d ended, %d clean census batches, %d race reports, %d new violations, %d known findings, %.1fs\n",
		obs["cases"], len(all), obs["ended"], obs["batches_census_clean"], races, rep.NewViolations(), len(rep.KnownHits()), rep.Elapsed())
	_ = runtime.NumCPU
	if rep.NewViolations() > 0 {
		return 1
	}
	return 0
}

func leakKey(l []string) string {
	if len(l) == 0 {
		return "none"
	}
	s := l[0]
	if i := strings.Index(s, "gohlslib/v2."); i >= 0 {
		s = s[i+len("gohlslib/v2."):]
	}
	if i := strings.Index(s, " <- "); i >= 0 {
		s = s[:i]
	}
	return strings.NewReplacer("(", "", ")", "", "*", "").Replace(s)
}

func init() {
	checks["C12"] = checkC12
	replayers["C12"] = func(path string) int {
		b, _ := os.ReadFile(path)
		var doc struct {
			Replay c12Case `json:"replay"`
		}
		if err := jsonUnmarshal(b, &doc); err != nil || doc.Replay.Script == "" {
			fmt.Println(string(b))
			return 0
		}
		o := runC12Case(doc.Replay)
		leak := clirun.CensusSettled(2 * time.Second)
		fmt.Printf("%s -> wait=%s requests=%d delivered=%d leak=%v\n", doc.Replay, o.waitErr, o.requests, o.units, leak)
		for _, v := range o.viol {
			fmt.Println("VIOLATED:", v)
		}
		if len(o.viol) > 0 || len(leak) > 0 {
			return 1
		}
		fmt.Println("held on this case")
		return 0
	}
}
