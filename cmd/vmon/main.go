// Command vmon is the runtime monitor of the gohlslib verification harness.
//
//	vmon check <ID> [--tier quick|thorough] [--seed N]
//	vmon replay <path>
package main

import (
	"encoding/json"
	"flag"
	"fmt"
	"os"
	"path/filepath"
	"strconv"

	"verif/internal/ev"
)

type checkFunc func(tier string, seed int64) int

var checks = map[string]checkFunc{}

// replayers re-run one recorded case; key = property id.
var replayers = map[string]func(path string) int{}

func main() {
	if len(os.Args) < 3 {
		fmt.Fprintln(os.Stderr, "usage: vmon check <ID> [--tier t] [--seed n] | vmon replay <path>")
		os.Exit(2)
	}
	switch os.Args[1] {
	case "check":
		id := os.Args[2]
		fs := flag.NewFlagSet("check", flag.ExitOnError)
		tier := fs.String("tier", envOr("VERIF_TIER", "quick"), "tier")
		seedDef, _ := strconv.ParseInt(envOr("VERIF_SEED", "1"), 10, 64)
		seed := fs.Int64("seed", seedDef, "seed")
		fs.Parse(os.Args[3:])
		f, ok := checks[id]
		if !ok {
			fmt.Fprintf(os.Stderr, "unknown property %s\n", id)
			os.Exit(2)
		}
		if *tier != "quick" && *tier != "thorough" {
			*tier = "quick"
		}
		os.Exit(f(*tier, *seed))
	case "replay":
		os.Exit(replay(os.Args[2]))
	case "c13-child":
		os.Exit(c13Child(os.Args[2:]))
	case "crash-evidence":
		// vmon crash-evidence <ID> --tier t --seed n <message> <violations>
		id := os.Args[2]
		fs := flag.NewFlagSet("crash", flag.ExitOnError)
		tier := fs.String("tier", "quick", "")
		seed := fs.Int64("seed", 1, "")
		fs.Parse(os.Args[3:])
		msg, nv := "", 0
		if fs.NArg() > 0 {
			msg = fs.Arg(0)
		}
		if fs.NArg() > 1 {
			nv, _ = strconv.Atoi(fs.Arg(1))
		}
		// what is known after an abnormal end: the cases that were in flight (each worker slot writes
		// its current case to replays/<ID>/current-<slot>.json before running it)
		samples := []any{msg}
		inflight, _ := filepath.Glob(filepath.Join(ev.Root, "replays", id, "current-*.json"))
		for i, f := range inflight {
			if i >= 3 {
				break
			}
			if b, err := os.ReadFile(f); err == nil {
				var v any
				if json.Unmarshal(b, &v) == nil {
					samples = append(samples, map[string]any{"in_flight_when_the_monitor_ended": v})
				}
			}
		}
		e := &ev.Evidence{PropertyID: id, Tier: *tier, Seed: *seed, Level: "other",
			Coverage: map[string]any{"evaluations": len(inflight), "distinct_nontrivial": 0,
				"explanation": "the monitor process ended abnormally (" + msg + "); evaluations counts only the cases that were in flight at that moment, nothing else can be claimed from this run",
				"rule":        "none: abnormal end", "samples": samples},
			Violations: nv}
		e.Write()
		os.Exit(0)
	default:
		fmt.Fprintln(os.Stderr, "unknown command")
		os.Exit(2)
	}
}

func envOr(k, d string) string {
	if v := os.Getenv(k); v != "" {
		return v
	}
	return d
}

func jsonUnmarshal(b []byte, v any) error { return json.Unmarshal(b, v) }
