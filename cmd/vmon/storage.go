package main

import (
	"bytes"
	"fmt"
	"io"
	"math/rand"
	"os"
	"path/filepath"
	"runtime"
	"sync"
	"sync/atomic"
	"time"

	"github.com/bluenviron/gohlslib/v2/pkg/storage"
	"verif/internal/ev"
	"verif/internal/hx"
)

// C17 — storage vs byte-slice model. RAM and disk factories are driven in lock-step with a
// [][]byte model by seeded random operation sequences.

type stoOp struct {
	Op   string `json:"op"`
	N    int    `json:"n,omitempty"`
	Off  int64  `json:"off,omitempty"`
	Cur  bool   `json:"cur,omitempty"`
	Buf  int    `json:"buf,omitempty"`
	Part int    `json:"part,omitempty"`
}

type stoCase struct {
	Property string  `json:"property"`
	Seed     int64   `json:"seed"`
	Index    int     `json:"index"`
	Ops      []stoOp `json:"ops"`
}

func genStoCase(seed int64, idx int) *stoCase {
	rng := rand.New(rand.NewSource(seed*7919 + int64(idx)*104729 + 3))
	c := &stoCase{Property: "C17", Seed: seed, Index: idx}
	nParts := rng.Intn(6)
	if rng.Intn(10) == 0 {
		nParts = 0
	}
	bufs := []int{0, 1, 2, 3, 7, 16, 100, 512, 4096, 65536}
	for p := 0; p < nParts; p++ {
		c.Ops = append(c.Ops, stoOp{Op: "newpart"})
		nw := rng.Intn(7)
		if rng.Intn(6) == 0 {
			nw = 0 // empty part
		}
		for w := 0; w < nw; w++ {
			switch rng.Intn(5) {
			case 0, 1, 2:
				n := rng.Intn(300)
				if rng.Intn(8) == 0 {
					n = rng.Intn(70000)
				}
				if rng.Intn(10) == 0 {
					n = 0
				}
				c.Ops = append(c.Ops, stoOp{Op: "write", N: n})
			case 3:
				// seek inside the current extent (resolved at run time as a fraction)
				c.Ops = append(c.Ops, stoOp{Op: "seek", Off: int64(rng.Intn(1000)), Cur: rng.Intn(2) == 0})
				if rng.Intn(3) != 0 {
					c.Ops = append(c.Ops, stoOp{Op: "write", N: rng.Intn(200)})
				}
			case 4:
				// seek past the extent followed by a write
				c.Ops = append(c.Ops, stoOp{Op: "seekpast", Off: int64(1 + rng.Intn(50))})
				c.Ops = append(c.Ops, stoOp{Op: "write", N: 1 + rng.Intn(100)})
			}
			if rng.Intn(6) == 0 {
				c.Ops = append(c.Ops, stoOp{Op: "readpart", Part: p})
			}
		}
		if rng.Intn(3) == 0 {
			c.Ops = append(c.Ops, stoOp{Op: "readpart", Part: rng.Intn(p + 1)})
		}
		if rng.Intn(5) == 0 {
			c.Ops = append(c.Ops, stoOp{Op: "readfile-early"})
		}
	}
	if rng.Intn(4) == 0 {
		c.Ops = append(c.Ops, stoOp{Op: "readfile-early"})
	}
	// readers handed out before Finalize (an HTTP response still being written) are consumed after
	// it, and after another file of the same factory has been filled
	if c.Index%5 == 3 {
		// a file that is removed without ever being finalized (what the muxer does with its open
		// segment at Close): Remove deletes the disk file all the same
		c.Ops = append(c.Ops, stoOp{Op: "remove"})
		return c
	}
	hold := nParts > 0 && rng.Intn(2) == 0
	if hold {
		c.Ops = append(c.Ops, stoOp{Op: "hold"})
	}
	c.Ops = append(c.Ops, stoOp{Op: "finalize"})
	if hold {
		if rng.Intn(4) != 0 {
			c.Ops = append(c.Ops, stoOp{Op: "churn", N: 1 + rng.Intn(4)})
		}
		c.Ops = append(c.Ops, stoOp{Op: "usehold"})
	}
	c.Ops = append(c.Ops, stoOp{Op: "size"})
	for i := 0; i < 1+rng.Intn(3); i++ {
		c.Ops = append(c.Ops, stoOp{Op: "readfile", Buf: bufs[rng.Intn(len(bufs))]})
	}
	for p := 0; p < nParts; p++ {
		if rng.Intn(2) == 0 {
			c.Ops = append(c.Ops, stoOp{Op: "readpart", Part: p})
		}
	}
	if rng.Intn(2) == 0 {
		c.Ops = append(c.Ops, stoOp{Op: "openreaders"})
	}
	c.Ops = append(c.Ops, stoOp{Op: "remove"})
	c.Ops = append(c.Ops, stoOp{Op: "useopen"})
	return c
}

type stoResult struct {
	viol    []string // "key|message"
	obs     map[string]int
	sig     string
	nontriv bool
}

func readAllBuf(r io.Reader, bufSize int) ([]byte, error) {
	if bufSize == 0 {
		// a zero-length read must not fail nor loop; then read the rest normally
		n, err := r.Read(nil)
		if n != 0 {
			return nil, fmt.Errorf("zero-length read returned %d bytes", n)
		}
		if err != nil && err != io.EOF {
			return nil, err
		}
		bufSize = 64
	}
	var out []byte
	buf := make([]byte, bufSize)
	if bufSize%4 == 1 {
		// the way the muxer's handlers drain a reader: a few Read calls that may stop inside a
		// part, then io.Copy (which prefers WriteTo / ReadFrom when the reader or writer has them)
		for i := 0; i < 1+bufSize%3; i++ {
			n, err := r.Read(buf)
			out = append(out, buf[:n]...)
			if err == io.EOF {
				return out, nil
			}
			if err != nil {
				return out, err
			}
		}
		var rest bytes.Buffer
		_, err := io.Copy(&rest, r)
		return append(out, rest.Bytes()...), err
	}
	for i := 0; i < 10000000; i++ {
		n, err := r.Read(buf)
		out = append(out, buf[:n]...)
		if err == io.EOF {
			return out, nil
		}
		if err != nil {
			return out, err
		}
	}
	return out, fmt.Errorf("reader never reached EOF")
}

func runStoCase(c *stoCase) *stoResult {
	res := &stoResult{obs: map[string]int{}}
	fail := func(key, f string, a ...any) {
		res.viol = append(res.viol, "C17/"+key+"|"+fmt.Sprintf(f, a...))
	}
	dir, err := os.MkdirTemp("", "vsto")
	if err != nil {
		fail("harness", "mkdtemp: %v", err)
		return res
	}
	defer os.RemoveAll(dir)
	type backend struct {
		name string
		f    storage.File
		ps   []storage.Part
		ws   []io.WriteSeeker
	}
	if c.Index%4 == 1 {
		// a leftover of the same name (an earlier run in the same Directory, a file not removed
		// yet), longer than what is going to be written: it must not shine through
		junk := bytes.Repeat([]byte{0xEE, 0x11, 0xEE, 0x22}, 100000)
		if err := os.WriteFile(filepath.Join(dir, "seg.mp4"), junk, 0o644); err == nil {
			res.obs["preexisting_longer_file"]++
		}
	}
	ramF, _ := storage.NewFactoryRAM().NewFile("seg.mp4")
	diskF, err := storage.NewFactoryDisk(dir).NewFile("seg.mp4")
	if err != nil {
		fail("harness", "disk NewFile: %v", err)
		return res
	}
	bes := []*backend{{name: "ram", f: ramF}, {name: "disk", f: diskF}}
	var model [][]byte
	var pos int64
	rng := rand.New(rand.NewSource(c.Seed*31 + int64(c.Index)))
	finalized := false
	type openR struct {
		be   string
		what string
		r    io.ReadCloser
		want []byte
	}
	var open, held []openR
	fpath := filepath.Join(dir, "seg.mp4")
	sig := ""
	for oi, op := range c.Ops {
		sig += op.Op[:2]
		switch op.Op {
		case "newpart":
			for _, b := range bes {
				p := b.f.NewPart()
				b.ps = append(b.ps, p)
				b.ws = append(b.ws, p.Writer())
			}
			model = append(model, nil)
			pos = 0
			res.obs["newpart"]++
		case "write":
			if len(model) == 0 {
				continue
			}
			data := make([]byte, op.N)
			rng.Read(data)
			cur := len(model) - 1
			for _, b := range bes {
				n, err := b.ws[cur].Write(data)
				if err != nil || n != len(data) {
					fail("write", "op %d: %s Write returned (%d, %v) for %d bytes", oi, b.name, n, err, len(data))
				}
			}
			m := model[cur]
			for int64(len(m)) < pos {
				m = append(m, 0)
			}
			end := pos + int64(len(data))
			if int64(len(m)) < end {
				m = append(m, make([]byte, end-int64(len(m)))...)
			}
			copy(m[pos:], data)
			model[cur] = m
			pos = end
			res.obs["write"]++
			if op.N == 0 {
				res.obs["write_empty"]++
			}
		case "seek", "seekpast":
			if len(model) == 0 {
				continue
			}
			cur := len(model) - 1
			l := int64(len(model[cur]))
			var target int64
			if op.Op == "seek" {
				if l == 0 {
					target = 0
				} else {
					target = op.Off % (l + 1)
				}
				res.obs["seek_inside"]++
			} else {
				target = l + op.Off
				res.obs["seek_past"]++
			}
			for _, b := range bes {
				var got int64
				var err error
				if op.Cur {
					got, err = b.ws[cur].Seek(target-pos, io.SeekCurrent)
				} else {
					got, err = b.ws[cur].Seek(target, io.SeekStart)
				}
				if err != nil || got != target {
					fail("seek", "op %d: %s Seek to %d returned (%d, %v)", oi, b.name, target, got, err)
				}
			}
			pos = target
		case "readpart":
			if op.Part >= len(model) {
				continue
			}
			want := model[op.Part]
			// a pending seek past the end is only materialised by the following write
			for _, b := range bes {
				r, err := b.ps[op.Part].Reader()
				if err != nil {
					fail("part-reader", "op %d: %s part %d Reader: %v", oi, b.name, op.Part, err)
					continue
				}
				got, err := readAllBuf(r, 1+rng.Intn(5000))
				r.Close()
				if err != nil {
					fail("part-reader", "op %d: %s part %d read: %v", oi, b.name, op.Part, err)
				}
				if !bytes.Equal(got, want) {
					fail("part-bytes/"+b.name+fmt.Sprintf("/finalized=%v", finalized), "op %d: %s part %d returns %d bytes, model has %d (finalized=%v, first diff at %d)", oi, b.name, op.Part, len(got), len(want), finalized, firstDiff(got, want))
				}
			}
			res.obs["readpart"]++
			if finalized {
				res.obs["readpart_after_finalize"]++
			}
			if len(want) == 0 {
				res.obs["readpart_empty"]++
			}
		case "readfile-early":
			for _, b := range bes {
				r, err := b.f.Reader()
				if err == nil {
					r.Close()
					fail("early-reader/"+b.name, "op %d: %s file Reader succeeded before Finalize", oi, b.name)
				}
			}
			res.obs["readfile_before_finalize"]++
		case "finalize":
			for _, b := range bes {
				b.f.Finalize()
			}
			finalized = true
		case "hold":
			for _, b := range bes {
				for pi, p := range b.ps {
					r, err := p.Reader()
					if err != nil {
						fail("part-reader", "op %d: %s part %d Reader: %v", oi, b.name, pi, err)
						continue
					}
					n := 0
					if len(model[pi]) > 0 {
						n = rng.Intn(len(model[pi]) + 1)
					}
					head := make([]byte, n)
					if _, err := io.ReadFull(r, head); err != nil || !bytes.Equal(head, model[pi][:n]) {
						fail("part-bytes/"+b.name+"/finalized=false", "op %d: %s part %d: first %d bytes differ from the model (err %v)", oi, b.name, pi, n, err)
					}
					held = append(held, openR{b.name, fmt.Sprintf("part %d", pi), r, append([]byte{}, model[pi][n:]...)})
				}
			}
			res.obs["readers_held_across_finalize"] += len(held)
		case "churn":
			// another file of the same factories: parts of about the same sizes, filled and finalized
			var sizes []int
			for i := 0; i < op.N; i++ {
				sz := rng.Intn(400)
				if len(model) > 0 && rng.Intn(2) == 0 {
					sz = len(model[rng.Intn(len(model))])
				}
				sizes = append(sizes, sz)
			}
			datas := make([][]byte, len(sizes))
			for i, sz := range sizes {
				datas[i] = make([]byte, sz)
				rng.Read(datas[i])
			}
			for bi, b := range bes {
				var f2 storage.File
				var err error
				if bi == 0 {
					f2, err = storage.NewFactoryRAM().NewFile("churn.mp4")
				} else {
					f2, err = storage.NewFactoryDisk(dir).NewFile("churn.mp4")
				}
				if err != nil {
					fail("harness", "churn NewFile: %v", err)
					continue
				}
				var ps2 []storage.Part
				for _, d := range datas {
					p2 := f2.NewPart()
					ps2 = append(ps2, p2)
					if n, err := p2.Writer().Write(d); err != nil || n != len(d) {
						fail("write", "op %d: %s Write returned (%d, %v) for %d bytes", oi, b.name, n, err, len(d))
					}
				}
				f2.Finalize()
				for i, p2 := range ps2 {
					r, err := p2.Reader()
					if err != nil {
						fail("part-reader", "op %d: %s second file part %d Reader: %v", oi, b.name, i, err)
						continue
					}
					got, _ := readAllBuf(r, 4096)
					r.Close()
					if !bytes.Equal(got, datas[i]) {
						fail("part-bytes/"+b.name+"/finalized=true", "op %d: %s second file part %d returns %d bytes, written %d (first diff at %d)", oi, b.name, i, len(got), len(datas[i]), firstDiff(got, datas[i]))
					}
				}
				f2.Remove()
			}
			res.obs["second_file_between"]++
		case "usehold":
			for _, o := range held {
				got, err := readAllBuf(o.r, 1+rng.Intn(5000))
				o.r.Close()
				if err != nil || !bytes.Equal(got, o.want) {
					fail("held-reader/"+o.be, "op %d: %s %s: a reader opened before Finalize and consumed after it returns %d bytes (err %v, first diff at %d), %d remained to be read", oi, o.be, o.what, len(got), err, firstDiff(got, o.want), len(o.want))
				}
				res.obs["held_reader_consumed_after_finalize"]++
			}
			held = nil
		case "size":
			total := 0
			for _, m := range model {
				total += len(m)
			}
			for _, b := range bes {
				if got := b.f.Size(); got != uint64(total) {
					fail("size/"+b.name, "op %d: %s Size() = %d, model total %d", oi, b.name, got, total)
				}
			}
			res.obs["size"]++
		case "readfile":
			var want []byte
			for _, m := range model {
				want = append(want, m...)
			}
			for _, b := range bes {
				r, err := b.f.Reader()
				if err != nil {
					fail("file-reader/"+b.name, "op %d: %s file Reader after Finalize: %v", oi, b.name, err)
					continue
				}
				got, err := readAllBuf(r, op.Buf)
				r.Close()
				if err != nil {
					fail("file-read/"+b.name, "op %d: %s file read (buffer %d): %v", oi, b.name, op.Buf, err)
				}
				if !bytes.Equal(got, want) {
					fail("file-bytes/"+b.name, "op %d: %s file returns %d bytes with buffer %d, model has %d (first diff at %d)", oi, b.name, len(got), op.Buf, len(want), firstDiff(got, want))
				}
			}
			res.obs["readfile"]++
			if op.Buf == 0 {
				res.obs["readfile_zero_buffer"]++
			}
		case "openreaders":
			var want []byte
			for _, m := range model {
				want = append(want, m...)
			}
			for _, b := range bes {
				if r, err := b.f.Reader(); err == nil {
					open = append(open, openR{b.name, "file", r, want})
				}
				for pi, p := range b.ps {
					if r, err := p.Reader(); err == nil {
						open = append(open, openR{b.name, fmt.Sprintf("part %d", pi), r, model[pi]})
					}
				}
			}
		case "remove":
			for _, b := range bes {
				b.f.Remove()
			}
			if _, err := os.Stat(fpath); err == nil {
				fail("remove", "op %d: disk file still exists after Remove", oi)
			}
			res.obs["remove"]++
		case "useopen":
			for _, o := range open {
				got, err := readAllBuf(o.r, 4096)
				o.r.Close()
				if err != nil || !bytes.Equal(got, o.want) {
					fail("use-after-remove/"+o.be, "op %d: %s %s reader opened before Remove returns %d bytes (err %v), expected %d", oi, o.be, o.what, len(got), err, len(o.want))
				}
				res.obs["use_after_remove"]++
			}
		}
	}
	res.sig = sig
	res.nontriv = len(model) >= 2
	return res
}

func firstDiff(a, b []byte) int {
	n := len(a)
	if len(b) < n {
		n = len(b)
	}
	for i := 0; i < n; i++ {
		if a[i] != b[i] {
			return i
		}
	}
	return n
}

func checkC17(tier string, seed int64) int {
	rep := ev.NewReporter("C17")
	n := 3000
	if tier == "thorough" {
		n = 200000
	}
	var mu sync.Mutex
	obs := map[string]int{}
	sigs := map[string]bool{}
	var samples []any
	ch := make(chan int)
	var wg sync.WaitGroup
	for w := 0; w < runtime.NumCPU(); w++ {
		wg.Add(1)
		go func(slot int) {
			defer wg.Done()
			for idx := range ch {
				c := genStoCase(seed, idx)
				rep.Current(slot, c)
				r := runStoCase(c)
				mu.Lock()
				for k, v := range r.obs {
					obs[k] += v
				}
				if r.nontriv {
					sigs[r.sig] = true
				}
				if len(samples) < 3 && r.nontriv {
					samples = append(samples, c)
				}
				mu.Unlock()
				for _, v := range r.viol {
					var key, msg string
					for i := 0; i < len(v); i++ {
						if v[i] == '|' {
							key, msg = v[:i], v[i+1:]
							break
						}
					}
					rep.Report(key, fmt.Sprintf("history %d: %s", idx, msg), c)
				}
			}
		}(w)
	}
	for i := 0; i < n; i++ {
		ch <- i
	}
	close(ch)
	wg.Wait()
	readerVsFinalize(rep, tier, seed, obs)
	e := &ev.Evidence{
		PropertyID: "C17", Tier: tier, Seed: seed, Level: "exploration",
		Coverage: map[string]any{
			"evaluations": n, "distinct_nontrivial": len(sigs),
			"rule":               "(then: forced interleavings of Part.Reader with Finalize at the hook inside partDisk.Reader, see observed.reader_vs_finalize_*) seeded random operation histories (NewPart, Write, Seek start/current inside or past the extent followed by a write, part/file Reader before and after Finalize, Size, Remove, readers used after Remove) run in lock-step on NewFactoryRAM, NewFactoryDisk and a [][]byte model; non-trivial = >= 2 parts; distinct = distinct operation-kind sequences",
			"samples":            samples,
			"observed":           obs,
			"known_findings_hit": rep.KnownHits(),
		},
		Assumptions: []string{
			"Writer() is obtained once per part and parts are written only while they are the newest part (the discipline the muxer follows)",
			"a seek past the current extent is always followed by a write",
		},
		WallS: rep.Elapsed(), Violations: rep.NewViolations(),
	}
	e.Write()
	fmt.Printf("C17: %d histories, %d distinct non-trivial, %d new violations, %d known findings, %.1fs\n", n, len(sigs), rep.NewViolations(), len(rep.KnownHits()), rep.Elapsed())
	if rep.NewViolations() > 0 {
		return 1
	}
	return 0
}

func init() {
	checks["C17"] = checkC17
	replayers["C17"] = func(path string) int {
		b, _ := os.ReadFile(path)
		var doc struct {
			Replay stoCase `json:"replay"`
		}
		if err := jsonUnmarshal(b, &doc); err != nil {
			fmt.Println(err)
			return 2
		}
		r := runStoCase(&doc.Replay)
		for _, v := range r.viol {
			fmt.Println("VIOLATED:", v)
		}
		if len(r.viol) > 0 {
			return 1
		}
		fmt.Println("held on this history")
		return 0
	}
}

// readerVsFinalize: the one concurrency the muxer produces on a storage File - an HTTP handler opens
// the reader of a part while the writer finalizes the file. The hook inside partDisk.Reader (reached
// while the part is still in RAM) starts Finalize and gives it time to run or to block; whatever
// order results, the reader must deliver the part's bytes, before and after ("RAM-backed and
// disk-backed storage are observationally identical": the RAM reader cannot fail here). The verdict
// does not depend on which order happened.
func readerVsFinalize(rep *ev.Reporter, tier string, seed int64, obs map[string]int) {
	hx.Install()
	n := 60
	if tier == "thorough" {
		n = 2000
	}
	dir, err := os.MkdirTemp("", "c17rf")
	if err != nil {
		fmt.Println("HARNESS: C17 reader-vs-finalize:", err)
		return
	}
	defer os.RemoveAll(dir)
	defer hx.SetStorageHook(nil)
	for i := 0; i < n; i++ {
		rng := rand.New(rand.NewSource(seed*7919 + int64(i)))
		f, err := storage.NewFactoryDisk(dir).NewFile(fmt.Sprintf("rf%d.mp4", i))
		if err != nil {
			fmt.Println("HARNESS: C17 reader-vs-finalize:", err)
			return
		}
		np := 1 + rng.Intn(4)
		var parts []storage.Part
		var want [][]byte
		for k := 0; k < np; k++ {
			p := f.NewPart()
			b := make([]byte, rng.Intn(3000))
			rng.Read(b)
			p.Writer().Write(b)
			parts = append(parts, p)
			want = append(want, b)
		}
		target := rng.Intn(np)
		finDone := make(chan struct{})
		var finStarted atomic.Bool
		hx.SetStorageHook(func(point string, key any) {
			if point != "partdisk.reader" || key != any(parts[target]) || finStarted.Swap(true) {
				return
			}
			go func() { f.Finalize(); close(finDone) }()
			select {
			case <-finDone:
				// Finalize ran inside the reader's window
			case <-time.After(40 * time.Millisecond):
				// Finalize is waiting for the reader to leave
			}
		})
		ref := map[string]any{"property": "C17", "reader_vs_finalize": i, "seed": seed}
		read := func(when string) {
			defer func() {
				if pv := recover(); pv != nil {
					rep.Report("C17/reader-vs-finalize/panic", fmt.Sprintf("case %d: Part.Reader of part %d of %d %s panicked: %v", i, target, np, when, pv), ref)
				}
			}()
			r, err := parts[target].Reader()
			if err != nil {
				rep.Report("C17/reader-vs-finalize/error", fmt.Sprintf("case %d: Part.Reader of part %d %s: %v", i, target, when, err), ref)
				return
			}
			got, err := io.ReadAll(r)
			r.Close()
			if err != nil || !bytes.Equal(got, want[target]) {
				rep.Report("C17/reader-vs-finalize/bytes", fmt.Sprintf("case %d: reader of part %d opened %s returned %d bytes (err %v), written %d", i, target, when, len(got), err, len(want[target])), ref)
			}
		}
		read("while the file is being finalized")
		if !finStarted.Load() {
			obs["reader_vs_finalize_hook_not_reached"]++
			f.Finalize()
		} else {
			select {
			case <-finDone:
			case <-time.After(20 * time.Second):
				rep.Report("C17/reader-vs-finalize/finalize-stuck", fmt.Sprintf("case %d: Finalize did not return after the reader left", i), ref)
			}
		}
		hx.SetStorageHook(nil)
		read("after Finalize")
		obs["reader_vs_finalize_cases"]++
		f.Remove()
	}
}
