package main

import (
	"fmt"
	"math/rand"
	"os"
	"os/signal"
	"path/filepath"
	"regexp"
	"runtime"
	"sort"
	"strconv"
	"strings"
	"sync"
	"sync/atomic"
	"syscall"
	"time"

	"github.com/bluenviron/gohlslib/v2"
	"github.com/bluenviron/gohlslib/v2/pkg/codecs"

	"verif/internal/ev"
	"verif/internal/hx"
	"verif/internal/m3u8x"
	"verif/internal/media"
	"verif/internal/muxrun"
)

// C07 — Close unblocks every request and releases all storage.

type c07Case struct {
	Seed     int64    `json:"seed"`
	Index    int      `json:"index"`
	Variant  int      `json:"variant"`
	Disk     bool     `json:"disk"`
	Life     string   `json:"life"`     // before-data | first-segment-open | mid-stream
	Pending  []string `json:"pending"`  // kinds of requests pending at Close
	Schedule string   `json:"schedule"` // plain | wake-before-closed | wake-after-close | delays
	Closes   int      `json:"closes"`
}

var c07Schedules = []string{"plain", "wake-before-closed", "wake-after-close", "delays"}
var c07Lives = []string{"before-data", "first-segment-open", "mid-stream", "mid-stream", "failed-rotation"}

func genC07Case(seed int64, idx int) *c07Case {
	rng := rand.New(rand.NewSource(seed*48271 + int64(idx)*16807 + 9))
	c := &c07Case{Seed: seed, Index: idx}
	c.Variant = 1 + idx%3
	c.Schedule = c07Schedules[(idx/3)%len(c07Schedules)]
	c.Life = c07Lives[(idx/12)%len(c07Lives)]
	c.Disk = rng.Intn(2) == 0
	if c.Life == "failed-rotation" {
		c.Disk = true // the rotation fails because the next segment file cannot be created
	}
	kinds := []string{"mv-wait", "media-wait", "blocking-reload", "preload-hint"}
	n := rng.Intn(5)
	for i := 0; i < n; i++ {
		c.Pending = append(c.Pending, kinds[rng.Intn(len(kinds))])
	}
	if idx%7 == 0 {
		c.Pending = []string{"mv-wait", "media-wait", "blocking-reload", "preload-hint", "preload-hint", "blocking-reload"}
	}
	c.Closes = 1
	return c
}

var reSegName = regexp.MustCompile(`^(.*_)seg([0-9]+)(\.[a-z0-9]+)$`)

func baseName(u string) string {
	if i := strings.IndexByte(u, '?'); i >= 0 {
		u = u[:i]
	}
	return u[strings.LastIndexByte(u, '/')+1:]
}

type c07Result struct {
	viol []string
	obs  map[string]int
	sig  string
}

func runC07Case(cc *c07Case) *c07Result {
	res := &c07Result{obs: map[string]int{}}
	fail := func(key, f string, a ...any) {
		res.viol = append(res.viol, "C07/"+key+"|"+fmt.Sprintf(f, a...))
	}
	rng := rand.New(rand.NewSource(cc.Seed*69621 + int64(cc.Index)))
	disk := cc.Disk
	c := media.Gen(cc.Seed, 200000+cc.Index, media.GenOpts{Profile: "general", Variant: cc.Variant, MaxWrites: 400, MinSegments: 5, MaxSegments: 9, ForceDisk: &disk})
	h := muxrun.New(c, muxrun.Options{})
	if h.StartErr != "" {
		fail("harness", "start: %s", h.StartErr)
		return res
	}
	defer h.Cleanup()
	opts := muxrun.Options{NoFetch: true}
	watchdog := 8 * time.Second

	// advance to the life point
	contentAt := -1
	blocker := ""
	stopAt := 0
	var lastPL *m3u8x.Media
	lead := h.LeadingStream()
	limit := len(c.Writes)
	for i := 0; i < limit; i++ {
		if cc.Life == "before-data" {
			break
		}
		if err := h.DoWrite(i); err != nil {
			if err == muxrun.ErrWriteStuck {
				// (Close is still called below: it must not hang either)
				fail("writer-stuck", "%s", h.Hangs[len(h.Hangs)-1])
				h.Hangs = nil
			}
			break
		}
		if contentAt >= 0 && i == contentAt+2 && cc.Index%3 == 1 {
			// a viewer asks for something that is not there (an expired segment, favicon.ico): answered at
			// once, and without any effect on what follows
			for _, u := range []string{"nothing7.mp4", "favicon.ico"} {
				if _, st := hx.Get(h.M.Handle, u, 5*time.Second); st != hx.Done {
					fail("unknown-path-stuck", "request for %s did not return", u)
				}
			}
			res.obs["unknown_path_requests_before_close"]++
		}
		stopAt = i + 1
		r := h.Observe(i, nil, opts)
		if len(h.Hangs) > 0 {
			fail("harness", "hang while preparing: %s", h.Hangs[0])
			return res
		}
		so := r.Streams[lead]
		if so != nil && so.PL != nil && so.PL.Media != nil {
			lastPL = so.PL.Media
			if contentAt < 0 {
				contentAt = i
			}
		}
		if cc.Life == "first-segment-open" && i >= 3 && contentAt < 0 && rng.Intn(4) == 0 {
			break
		}
		if cc.Life == "mid-stream" && contentAt >= 0 && i > contentAt+5 && rng.Intn(10) == 0 {
			break
		}
		if cc.Life == "failed-rotation" && contentAt >= 0 && i > contentAt+2 && blocker == "" && lastPL != nil && len(lastPL.Segments) > 0 {
			// a directory squats the name of the segment file after the open one: the rotation that
			// needs it fails, the Write returns an error and the muxer is closed (what callers do)
			last := lastPL.Segments[len(lastPL.Segments)-1]
			name := baseName(last.URI)
			if m := reSegName.FindStringSubmatch(name); m != nil {
				n, _ := strconv.Atoi(m[2])
				blocker = fmt.Sprintf("%sseg%d%s", m[1], n+2, m[3])
				if err := os.Mkdir(filepath.Join(h.Dir, blocker), 0o755); err != nil {
					blocker = ""
				}
			}
		}
	}
	if cc.Life == "failed-rotation" {
		if blocker == "" || stopAt == limit {
			res.obs["inconclusive_rotation_did_not_fail"]++
		} else {
			res.obs["closed_after_failed_rotation"]++
		}
	}
	_ = stopAt
	hasContent := lastPL != nil

	// issue the pending requests; each must really park
	type pend struct {
		kind string
		q    *hx.Req
	}
	var pending []*pend
	streams := h.StreamIDs
	kinds := append([]string{}, cc.Pending...)
	if hasContent && cc.Variant == media.VarLL && cc.Index%4 == 2 {
		// a reload that names one of the initial gap segments still listed (answered at once, or
		// parked: either way Close must not depend on it)
		kinds = append(kinds, "gap-reload")
	}
	for _, k := range kinds {
		id := streams[rng.Intn(len(streams))]
		url := ""
		switch k {
		case "gap-reload":
			gap := -1
			for _, sg := range lastPL.Segments {
				if sg.Gap {
					gap = sg.MSN
				}
			}
			if gap < 0 {
				continue
			}
			url = fmt.Sprintf("%s_stream.m3u8?_HLS_msn=%d&_HLS_part=0", id, gap)
		case "mv-wait":
			if hasContent {
				continue
			}
			url = "index.m3u8"
		case "media-wait":
			if hasContent {
				continue
			}
			url = id + "_stream.m3u8"
		case "blocking-reload":
			if !hasContent || cc.Variant != media.VarLL {
				continue
			}
			st := stateOf(lastPL)
			url = fmt.Sprintf("%s_stream.m3u8?_HLS_msn=%d&_HLS_part=%d", id, st.open+rng.Intn(2), st.parts[st.open]+1+rng.Intn(2))
		case "preload-hint":
			if !hasContent || cc.Variant != media.VarLL || lastPL.Hint == nil {
				continue
			}
			url = strings.Replace(lastPL.Hint.URI, lead+"_", id+"_", 1)
		}
		q := hx.Start(h.M.Handle, url, nil)
		st := q.Wait(0, watchdog)
		if st != hx.Parked {
			if st == hx.Done {
				res.obs["pending_not_parked."+k]++
				continue
			}
			if k == "gap-reload" {
				// not parked on the condition variable and not answered: the handler is running (or
				// waiting for a lock) long after it should have decided
				fail("request-neither-parked-nor-answered", "request %s neither parked nor completed within the watchdog", url)
				continue
			}
			fail("harness", "request %s neither parked nor completed", url)
			continue
		}
		pending = append(pending, &pend{k, q})
		res.obs["parked_at_close."+k]++
	}

	// slow clients: responses of non-blocking requests whose body is being written to a client that
	// has stopped reading when Close is called (the handler is inside ResponseWriter.Write). Close
	// must not depend on them.
	slowGate := make(chan struct{})
	var slow []*hx.Req
	if hasContent && cc.Index%3 == 1 {
		urls := []string{"index.m3u8", lead + "_stream.m3u8"}
		if lastPL != nil && len(lastPL.Segments) > 0 && !lastPL.Segments[len(lastPL.Segments)-1].Gap {
			urls = append(urls, lastPL.Segments[len(lastPL.Segments)-1].URI)
		}
		for _, u := range urls[:1+rng.Intn(len(urls))] {
			q := hx.StartGated(h.M.Handle, u, nil, slowGate)
			select {
			case <-q.AtGate:
				slow = append(slow, q)
				res.obs["slow_clients_mid_response_at_close"]++
			case <-time.After(watchdog):
				// the request parked or failed before writing a body: not a slow-client case
			}
		}
	}
	defer close(slowGate)

	// schedule control
	var closeReturned atomic.Bool
	closeDone := make(chan struct{})
	release := make(chan struct{})
	wakesBefore := make([]int, len(pending))
	for i, p := range pending {
		wakesBefore[i] = p.q.Wakes()
	}
	key := h.M.VerifKey()
	forcedOK := true
	switch cc.Schedule {
	case "wake-before-closed":
		hx.OnKey(key, func(point string, _ any) {
			if point != "close.broadcast" {
				return
			}
			// hold Close between the broadcast and the per-stream close until every waiter has
			// woken up and has either re-parked or returned
			deadline := time.Now().Add(3 * time.Second)
			for {
				all := true
				for i, p := range pending {
					if p.q.IsDone() {
						continue
					}
					if p.q.Wakes() <= wakesBefore[i] || !p.q.IsParked() {
						all = false
					}
				}
				if all {
					return
				}
				if time.Now().After(deadline) {
					forcedOK = false
					return
				}
				time.Sleep(200 * time.Microsecond)
			}
		})
	case "wake-after-close":
		// waiters are held right after waking (muxer mutex held) until Close has returned
		for _, p := range pending {
			p := p
			hx.SetReqEventHook(p.q, func(point string) {
				if point == "wait.wake" && !closeReturned.Load() {
					select {
					case <-release:
					case <-time.After(3 * time.Second):
					}
				}
			})
		}
	case "delays":
		hx.OnKey(key, func(point string, _ any) {
			if point == "close.flagged" || point == "close.broadcast" {
				time.Sleep(time.Duration(rng.Intn(400)) * time.Microsecond)
				runtime.Gosched()
			}
		})
	}

	h.Closed = true
	go func() {
		for i := 0; i < cc.Closes; i++ {
			h.M.Close()
		}
		closeReturned.Store(true)
		close(release)
		close(closeDone)
	}()
	select {
	case <-closeDone:
	case <-time.After(watchdog):
		fail("close-hangs", "Close did not return (schedule %s, %d pending, %d slow clients in the middle of a response)", cc.Schedule, len(pending), len(slow))
		return res
	}
	hx.OnKey(key, func(string, any) {})
	if cc.Schedule == "wake-before-closed" && len(pending) > 0 {
		if forcedOK {
			res.obs["forced_wake_before_closed"]++
		} else {
			res.obs["forced_order_not_reached"]++
		}
	}
	if cc.Schedule == "wake-after-close" && len(pending) > 0 {
		res.obs["forced_wake_after_close"]++
	}

	// oracle 1: every pending request completes with a non-200 status
	for _, p := range pending {
		st := p.q.Wait(1<<30, watchdog)
		if st != hx.Done {
			state := "running"
			if p.q.IsParked() {
				state = "parked in cond.Wait"
			}
			fail("stuck/"+p.kind, "after Close returned, pending %s request %s never completed (%s; schedule %s, life %s)", p.kind, p.q.URL, state, cc.Schedule, cc.Life)
			continue
		}
		res.obs["pending_completed"]++
		// (a handler that returns without ever calling WriteHeader or Write makes net/http send
		// "200 OK" with an empty body: status 0 of the recorder is a 200 on the wire)
		if p.q.Resp.Status == 200 || p.q.Resp.Status == 0 {
			fail("status/"+p.kind, "pending %s request %s completed with status 200 after Close", p.kind, p.q.URL)
		}
		if p.q.Resp.Panic != "" {
			fail("panic", "pending request %s panicked: %s", p.q.URL, p.q.Resp.Panic)
		}
	}
	// oracle 2: no lock left held
	free := false
	for i := 0; i < 200; i++ {
		if h.M.VerifMutexFree() {
			free = true
			break
		}
		time.Sleep(time.Millisecond)
	}
	if !free {
		fail("mutex-held", "the muxer mutex is still held after Close returned and every request is quiescent (schedule %s, pending %v)", cc.Schedule, kindsOf07(cc, pending))
	}
	// oracle 3: later requests return
	later := []string{"index.m3u8", streams[0] + "_stream.m3u8", "nonexistent.mp4"}
	if cc.Variant == media.VarLL {
		later = append(later, streams[0]+"_stream.m3u8?_HLS_msn=9&_HLS_part=1")
	}
	if lastPL != nil {
		if lastPL.Hint != nil {
			later = append(later, lastPL.Hint.URI)
		}
		if len(lastPL.Segments) > 0 {
			later = append(later, lastPL.Segments[len(lastPL.Segments)-1].URI)
		}
		if lastPL.HasMap {
			later = append(later, lastPL.MapURI)
		}
	}
	for _, u := range later {
		q, st := hx.Get(h.M.Handle, u, watchdog/2)
		if st != hx.Done {
			fail("later-stuck", "request %s issued after Close never completed (state %d)", u, st)
			continue
		}
		res.obs["later_requests_completed"]++
		if q.Resp.Panic != "" {
			fail("later-panic", "request %s issued after Close panicked: %s", u, q.Resp.Panic)
		}
		if strings.HasSuffix(strings.Split(u, "?")[0], ".m3u8") && (q.Resp.Status == 200 || q.Resp.Status == 0) {
			fail("later-200", "playlist request %s issued after Close returned 200", u)
		}
	}
	// oracle 4: directory emptied
	if h.Dir != "" {
		ents, _ := os.ReadDir(h.Dir)
		res.obs["dir_checked"]++
		var names []string
		for _, e := range ents {
			if e.Name() != blocker {
				names = append(names, e.Name())
			}
		}
		if len(names) != 0 {
			fail("files-left", "Directory still holds %d files after Close (life %s): %v", len(names), cc.Life, names)
		}
	}
	res.sig = fmt.Sprintf("v%d|%s|%s|%v|%v", cc.Variant, cc.Life, cc.Schedule, kindsOf07(cc, pending), cc.Disk)
	res.obs["cases"]++
	res.obs["cases."+cc.Schedule]++
	res.obs["cases."+cc.Life]++
	return res
}

func kindsOf07[T any](cc *c07Case, pending []T) string {
	ks := append([]string{}, cc.Pending...)
	sort.Strings(ks)
	return fmt.Sprintf("%d of %v", len(pending), ks)
}

func checkC07(tier string, seed int64) int {
	rep := ev.NewReporter("C07")
	n := 720
	if tier == "thorough" {
		n = 20000
	}
	var mu sync.Mutex
	obs := map[string]int{}
	sigs := map[string]bool{}
	var samples []any
	flushFault(rep, seed, obs, false)
	ch := make(chan int)
	var wg sync.WaitGroup
	for w := 0; w < runtime.NumCPU(); w++ {
		wg.Add(1)
		go func(slot int) {
			defer wg.Done()
			for idx := range ch {
				c := genC07Case(seed, idx)
				rep.Current(slot, c)
				r := runC07Case(c)
				mu.Lock()
				for k, v := range r.obs {
					obs[k] += v
				}
				if r.sig != "" {
					sigs[r.sig] = true
				}
				if len(samples) < 4 && idx%31 == 7 {
					samples = append(samples, c)
				}
				mu.Unlock()
				for _, v := range r.viol {
					k, m := splitKM(v)
					rep.Report(k, fmt.Sprintf("case %d: %s", idx, m), map[string]any{"property": "C07", "case": c})
				}
			}
		}(w)
	}
	for i := 0; i < n; i++ {
		ch <- i
	}
	close(ch)
	wg.Wait()
	var inconclusive []string
	for _, k := range []string{"parked_at_close.mv-wait", "parked_at_close.media-wait", "parked_at_close.blocking-reload", "parked_at_close.preload-hint", "forced_wake_before_closed", "forced_wake_after_close", "dir_checked"} {
		if obs[k] < 1 {
			msg := fmt.Sprintf("INCONCLUSIVE property=C07 %s observed %d times", k, obs[k])
			fmt.Println(msg)
			inconclusive = append(inconclusive, msg)
		}
	}
	if len(samples) == 0 {
		samples = append(samples, genC07Case(seed, 0))
	}
	e := &ev.Evidence{
		PropertyID: "C07", Tier: tier, Seed: seed, Level: "exploration",
		Coverage: map[string]any{
			"evaluations": n, "distinct_nontrivial": len(sigs),
			"rule":               "variant x storage x life point (before data / first segment open / mid-stream) x pending set (0..6 of: multivariant waiting for content, media playlist waiting for content, blocking reload, preload hint, on any stream) x schedule (plain, Close held between broadcast and stream close until every waiter woke and re-parked, waiters held after waking until Close returned, seeded delays); each pending request is confirmed parked (hook wait.park) before Close; distinct = distinct (variant, life, schedule, pending set, storage) signatures",
			"samples":            samples,
			"observed":           obs,
			"inconclusive":       inconclusive,
			"known_findings_hit": rep.KnownHits(),
		},
		Assumptions: []string{
			"'promptly' is decided by state (Close returned, request goroutine still parked in cond.Wait or running, no other actor active) after a generous watchdog, never by a latency threshold",
		},
		WallS: rep.Elapsed(), Violations: rep.NewViolations(),
	}
	e.Write()
	fmt.Printf("C07: %d cases, %d distinct, %d new violations, %d known findings, %.1fs\n", n, len(sigs), rep.NewViolations(), len(rep.KnownHits()), rep.Elapsed())
	if rep.NewViolations() > 0 {
		return 1
	}
	return 0
}

func init() {
	checks["C07"] = checkC07
	replayers["C07"] = func(path string) int {
		b, _ := os.ReadFile(path)
		var doc struct {
			Replay struct {
				Case c07Case `json:"case"`
			} `json:"replay"`
		}
		if err := jsonUnmarshal(b, &doc); err != nil {
			fmt.Println(err)
			return 2
		}
		r := runC07Case(&doc.Replay.Case)
		fmt.Println(r.obs)
		for _, v := range r.viol {
			fmt.Println("VIOLATED:", v)
		}
		if len(r.viol) > 0 {
			return 1
		}
		fmt.Println("held on this case")
		return 0
	}
}

// flushFault: a disk write fault while a finished segment is being flushed (disk full, file size
// limit, I/O error). The fault is real: for the one Write that rotates the segment the process's
// file size limit is set to zero (SIGXFSZ ignored), then restored. It runs alone, before the
// parallel cases, because the limit is process-wide. The writer goes on for a few units, then the
// muxer is closed: Close returns, later requests are answered with a non-200 status and Directory
// is empty, as after any other life.
func flushFault(rep *ev.Reporter, seed int64, obs map[string]int, forC08 bool) {
	signal.Ignore(syscall.SIGXFSZ)
	defer signal.Reset(syscall.SIGXFSZ)
	var dirs []string
	defer func() {
		for _, d := range dirs {
			os.RemoveAll(d)
		}
	}()
	for k, variant := range []gohlslib.MuxerVariant{gohlslib.MuxerVariantMPEGTS, gohlslib.MuxerVariantFMP4, gohlslib.MuxerVariantLowLatency} {
		ref := map[string]any{"property": "C07", "flush_fault": k, "seed": seed}
		dir, err := os.MkdirTemp("", "c07ff")
		if err != nil {
			fmt.Println("HARNESS: C07 flush fault:", err)
			return
		}
		dirs = append(dirs, dir)
		tr := &gohlslib.Track{Codec: &codecs.H264{SPS: media.H264SPSVectors[0], PPS: media.H264PPS[0]}, ClockRate: 90000}
		segCount := 3
		if variant == gohlslib.MuxerVariantLowLatency {
			segCount = 7
		}
		m := &gohlslib.Muxer{Variant: variant, SegmentCount: segCount, SegmentMinDuration: time.Second, Directory: dir, Tracks: []*gohlslib.Track{tr}}
		if err := m.Start(); err != nil {
			fmt.Println("HARNESS: C07 flush fault:", err)
			os.RemoveAll(dir)
			continue
		}
		ntp := time.Date(2024, 5, 1, 8, 0, 0, 0, time.UTC)
		n := 0
		writerPanicked := ""
		writerStuck := false
		write := func() (e error) {
			if writerPanicked != "" {
				return nil // an application that recovered from the panic stops writing
			}
			defer func() {
				if pv := recover(); pv != nil {
					writerPanicked = fmt.Sprint(pv)
					e = fmt.Errorf("panic: %v", pv)
				}
			}()
			nalu := make([]byte, 600+int(seed%200))
			nalu[0] = 0x41
			au := [][]byte{nalu}
			if n%25 == 0 {
				nalu[0] = 0x65
				au = [][]byte{media.H264SPSVectors[0], media.H264PPS[0], nalu}
			}
			// (a Write that never returns - a lock left held by the failed rotation - must end the life
			// with a verdict, not the monitor)
			done := make(chan error, 1)
			wn := n
			go func() {
				defer func() {
					if pv := recover(); pv != nil {
						done <- fmt.Errorf("panic: %v", pv)
					}
				}()
				done <- m.WriteH264(tr, ntp.Add(time.Duration(wn)*40*time.Millisecond), int64(wn)*3600, au)
			}()
			n++
			select {
			case e = <-done:
				if e != nil && strings.HasPrefix(e.Error(), "panic: ") {
					writerPanicked = strings.TrimPrefix(e.Error(), "panic: ")
				}
			case <-time.After(20 * time.Second):
				writerStuck = true
				writerPanicked = "stuck" // stop writing
				e = fmt.Errorf("write %d did not return", wn)
			}
			return e
		}
		for n < 25*(1+k)+10 { // one to three segments and ten units of the next
			write()
		}
		for n%25 != 0 {
			write()
		}
		var old syscall.Rlimit
		syscall.Getrlimit(syscall.RLIMIT_FSIZE, &old)
		syscall.Setrlimit(syscall.RLIMIT_FSIZE, &syscall.Rlimit{Cur: 0, Max: old.Max})
		werr := write() // the key frame that rotates the segment
		syscall.Setrlimit(syscall.RLIMIT_FSIZE, &old)
		if werr != nil {
			obs["flush_fault_writes_failed"]++
		} else {
			obs["flush_fault_write_went_through"]++ // RAM-buffered parts: nothing was written to disk in that Write
		}
		for i := 0; i < 8; i++ {
			write()
		}
		if forC08 {
			// C08's clause: no panic in Write* or Handle, whatever happened before
			obs["write_fault_lives"]++
			if writerStuck {
				rep.Report("C08/write-fault/writer-stuck", fmt.Sprintf("variant %d: a Write after the one that failed on a disk write fault (%v) did not return within 20 s", variant, werr), ref)
				os.RemoveAll(dir)
				continue
			}
			if writerPanicked != "" {
				rep.Report("C08/write-fault/writer-panic", fmt.Sprintf("variant %d: after a Write had failed on a disk write fault during a rotation (%v) a later Write panicked: %s", variant, werr, writerPanicked), ref)
			}
			for _, u := range []string{"index.m3u8", "main_stream.m3u8", "video1_stream.m3u8"} {
				if rq, st := hx.Get(m.Handle, u, 5*time.Second); st == hx.Done && rq.Resp.Panic != "" {
					rep.Report("C08/write-fault/handler-panic", fmt.Sprintf("variant %d: %s requested after a Write had failed on a disk write fault panicked: %s", variant, u, rq.Resp.Panic), ref)
				}
			}
			m.Close()
			os.RemoveAll(dir)
			continue
		}
		if writerStuck {
			rep.Report("C07/flush-fault/writer-stuck", fmt.Sprintf("variant %d: a Write after the one that failed on a disk write fault (%v) did not return within 20 s: a lock was left held", variant, werr), ref)
		} else if writerPanicked != "" {
			obs["flush_fault_writer_panicked"]++ // (C08's finding; here: Close must still do its job)
		}
		done := make(chan struct{})
		go func() { m.Close(); close(done) }()
		select {
		case <-done:
		case <-time.After(20 * time.Second):
			rep.Report("C07/flush-fault/close-hangs", fmt.Sprintf("variant %d: Close did not return after a Write had failed on a disk write fault", variant), ref)
			continue
		}
		rq, st := hx.Get(m.Handle, "index.m3u8", 10*time.Second)
		if st != hx.Done {
			rep.Report("C07/flush-fault/later-stuck", fmt.Sprintf("variant %d: index.m3u8 requested after Close did not return", variant), ref)
		} else if rq.Resp.Status == 200 {
			rep.Report("C07/flush-fault/status", fmt.Sprintf("variant %d: index.m3u8 requested after Close answered 200", variant), ref)
		}
		es, _ := os.ReadDir(dir)
		if len(es) > 0 {
			var names []string
			for _, e := range es {
				names = append(names, e.Name())
			}
			rep.Report("C07/flush-fault/files-left", fmt.Sprintf("variant %d: Directory still holds %v after Close (a Write had failed on a disk write fault during a rotation: %v)", variant, names, werr), ref)
		}
		obs["flush_fault_lives"]++
		os.RemoveAll(dir)
	}
}
