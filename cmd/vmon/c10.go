package main

import (
	"errors"
	"fmt"
	"math/rand"
	"net/http"
	"os"
	"sort"
	"strings"
	"sync"
	"time"

	"github.com/bluenviron/gohlslib/v2"
	"github.com/bluenviron/mediacommon/v2/pkg/codecs/mpeg4audio"
	"verif/internal/clirun"
	"verif/internal/ev"
	"verif/internal/media"
	"verif/internal/origin"
)

// C10 — every sample of a well-formed stream delivered with normalized time.

type c10Playlist struct {
	url      string
	stream   *origin.Stream
	firstSeg int // first downloaded segment
	nSeg     int
	pdts     []*time.Time
	lead     int            // index of the leading track inside the stream
	reqKey   map[string]int // "URL|Range" of a segment request -> segment index
	segDone  map[int]int64  // segment -> stamp of its last delivered unit
}

type c10Result struct {
	c20viol []string // look-ahead / FIFO clauses of C20 evaluated on the same run
	viol    []string
	obs     map[string]int
	sig     string
	desc    map[string]any
}

func runC10Case(seed int64, idx int) *c10Result {
	res := &c10Result{obs: map[string]int{}}
	fail := func(key, f string, a ...any) {
		if len(res.viol) < 10 {
			res.viol = append(res.viol, "C10/"+key+"|"+fmt.Sprintf(f, a...))
		}
	}
	rng := rand.New(rand.NewSource(seed*2711 + int64(idx)*8191 + 17))
	site := origin.NewSite()
	container := []string{"ts", "fmp4"}[rng.Intn(2)]
	baseURL := "http://media.example.org/c10/"
	nSeg := 5 + rng.Intn(5)
	segSamples := 4 + rng.Intn(3)
	frags := 1 + rng.Intn(3)
	feats := map[string]bool{}
	if container == "fmp4" && (uint64(seed)*13+uint64(idx)*7)%8 == 0 {
		// CMAF-chunked segments: many moof/mdat pairs per segment file (what low-latency packagers
		// and gohlslib's own Low-Latency muxer produce), one or two samples each
		segSamples = 16 + (idx%3)*6
		frags = 12 + idx%9
		nSeg = 4 + idx%3
		feats["many-fragments"] = true
	}

	// common start instant
	var t0 int64 // seconds
	switch rng.Intn(4) {
	case 0:
		t0 = 0
	case 1:
		t0 = int64(rng.Intn(100000))
	case 2:
		if container == "fmp4" {
			t0 = (1 << 40) / 90000 // base times around 2^40 at 90 kHz
			feats["base-2^40"] = true
		} else {
			t0 = 95443 // the 33-bit clock wraps at 95443.7 s: the wrap falls inside the stream
			feats["wrap33"] = true
		}
	default:
		t0 = int64(rng.Intn(1 << 20))
	}
	if container == "fmp4" && idx%7 == 3 {
		// the 10 MHz time scale of Smooth-Streaming style packagers with base times around 2^40:
		// base x clock rate does not fit 63 bits
		t0 = (1 << 40) / 10000000
		feats["timescale-10MHz"] = true
		delete(feats, "base-2^40")
	}
	wrapAdj := int64(0)
	if feats["wrap33"] {
		// place the start a few samples before 2^33
		wrapAdj = (1 << 33) - t0*90000 - int64(3+rng.Intn(10))*900
	}
	mkVideo := func() *origin.Track {
		t := &origin.Track{Kind: media.H264, TimeScale: 90000, Params: testParamsH264, Base: t0*90000 + wrapAdj, SampleDur: 900, GOP: segSamples}
		if feats["timescale-10MHz"] {
			t.TimeScale, t.Base, t.SampleDur = 10000000, t0*10000000, 100000
		}
		if rng.Intn(3) == 0 {
			t.PTSPat = []int64{2, 0, 1, 3}
			feats["pts-offsets"] = true
		}
		if container == "fmp4" && rng.Intn(3) == 0 {
			t.Kind = media.H265
			t.Params = media.DefaultParamSets(media.H265)[0]
		}
		return t
	}
	audioRates := []int{48000, 44100, 32000, 16000}
	mkAudio := func(k int) *origin.Track {
		if container == "ts" {
			t := &origin.Track{Kind: media.AAC, TimeScale: 90000, AAC: mpeg4audio.Config{Type: 2, SampleRate: 48000, ChannelCount: 2}, SampleDur: 1920}
			t.Base = t0*90000 + wrapAdj
			return t
		}
		sr := audioRates[(k+rng.Intn(2))%len(audioRates)]
		t := &origin.Track{Kind: media.AAC, TimeScale: sr, AAC: mpeg4audio.Config{Type: 2, SampleRate: sr, ChannelCount: 2}, SampleDur: 1024}
		if rng.Intn(4) == 0 {
			t = &origin.Track{Kind: media.Opus, TimeScale: 48000, SampleDur: 960, OpusCh: 2}
		}
		t.Base = t0 * int64(t.TimeScale)
		return t
	}
	skewOf := func(t *origin.Track) {
		// audio may start a little before or after the video
		sk := int64(rng.Intn(7)-3) * t.SampleDur / 2
		if rng.Intn(3) == 0 {
			sk = 0
		}
		if t.Base+sk < 0 {
			sk = 0
		}
		t.Base += sk
		t.Skew = sk
		if sk < 0 {
			feats["audio-before-origin"] = true
		}
	}

	var pls []*c10Playlist
	multi := rng.Intn(2) == 0
	hasVideo := rng.Intn(6) != 0
	nAudio := rng.Intn(4)
	if !hasVideo && nAudio == 0 {
		nAudio = 1
	}
	if container == "ts" && !multi && nAudio > 1 {
		nAudio = 1
	}
	withPDT := rng.Intn(3) != 0
	pdtJitter := withPDT && rng.Intn(3) == 0
	rangeMode := []string{"none", "none", "start", "nostart"}[rng.Intn(4)]
	vod := rng.Intn(2) == 0
	pdtBase := time.Date(2022, 7, 8, 9, 10, 11, 0, time.UTC).Add(time.Duration(rng.Intn(1000)) * time.Millisecond)

	addPlaylist := func(name string, tracks []*origin.Track, tagBase int) *c10Playlist {
		st := &origin.Stream{Container: container, Tracks: tracks, FragsPer: frags}
		if len(tracks) > 1 && tracks[0].Kind.IsVideo() {
			// drawn apart from rng so that the other dimensions of a (seed, index) case stay as they were
			if li := (uint64(seed)*31 + uint64(idx)*17) % 5; li >= 3 {
				a := tracks[len(tracks)-1]
				st.LeadIn = float64(int64(li-2)*a.SampleDur) / float64(a.TimeScale)
			}
		}
		if err := st.Build(nSeg, segSamples, tagBase); err != nil {
			fail("harness", "build %s: %v", name, err)
			return nil
		}
		if st.LeadIn > 0 {
			// every segment file must still carry data of every declared track (the MPEG-TS reader
			// learns the audio configuration from the first file): otherwise fall back to no lead-in
			have := map[[2]int]bool{}
			for ti, t := range tracks {
				for _, sm := range t.Samples {
					have[[2]int{ti, sm.Seg}] = true
				}
			}
			if len(have) == len(tracks)*nSeg {
				feats["audio-lead-in"] = true
			} else {
				for _, t := range tracks {
					t.Samples = nil
				}
				st = &origin.Stream{Container: container, Tracks: tracks, FragsPer: frags}
				if err := st.Build(nSeg, segSamples, tagBase); err != nil {
					fail("harness", "build %s: %v", name, err)
					return nil
				}
			}
		}
		plURL := baseURL + name
		pl := &origin.Playlist{URL: plURL, TargetDuration: 1, OmitRangeStart: rangeMode == "nostart"}
		if (uint64(seed)*3+uint64(idx)*7)%6 == 0 {
			// a Low-Latency stream that has ended, or whose packager advertises blocking reload
			// without hinting parts: CAN-BLOCK-RELOAD=YES but no EXT-X-PRELOAD-HINT; played like any
			// other playlist (whole segments, look-ahead of two)
			pl.CanBlockReload = true
			pl.PartTargetNS = 20e6
			feats["can-block-reload-without-hint"] = true
		}
		if rangeMode == "nostart" && idx%2 == 1 {
			pl.RangeStartEvery = 2 + idx%3 // explicit offsets again in the middle of the run
			feats["range-offsets-mixed"] = true
		}
		p := &c10Playlist{url: plURL, stream: st, nSeg: nSeg, reqKey: map[string]int{}, segDone: map[int]int64{}}
		supported := func(t *origin.Track) bool {
			return container != "ts" || t.Kind == media.H264 || t.Kind == media.AAC
		}
		for i, t := range tracks {
			if supported(t) {
				p.lead = i
				break
			}
		}
		for i, t := range tracks {
			if supported(t) && t.Kind.IsVideo() {
				p.lead = i
				break
			}
		}
		var single []byte
		off := uint64(0)
		tag := fmt.Sprintf("t%d", tagBase)
		if container == "fmp4" {
			if rangeMode == "none" {
				pl.MapURI = tag + "_init.mp4"
				site.Files[origin.Resolve(plURL, pl.MapURI)] = st.Init
				site.Kinds[origin.Resolve(plURL, pl.MapURI)] = "init"
			} else {
				pl.MapURI = tag + "_all.mp4"
				single = append(single, st.Init...)
				pl.MapRangeLen = u64p(uint64(len(st.Init)))
				pl.MapRangeStart = u64p(0)
				off = uint64(len(st.Init))
			}
		}
		for i := 0; i < nSeg; i++ {
			sg := origin.Seg{DurNS: st.SegDurNS[i]}
			if withPDT {
				t := pdtBase.Add(time.Duration(i) * time.Duration(st.SegDurNS[i]))
				if pdtJitter {
					t = t.Add(time.Duration(i*i) * 7 * time.Millisecond)
				}
				t = t.Truncate(time.Millisecond) // the playlist carries milliseconds
				sg.PDT = &t
			}
			p.pdts = append(p.pdts, sg.PDT)
			if rangeMode == "none" {
				sg.URI = fmt.Sprintf("%s_seg_%d.bin", tag, i)
				site.Files[origin.Resolve(plURL, sg.URI)] = st.Segs[i]
				p.reqKey[origin.ResolveFull(plURL, sg.URI)+"|"] = i
			} else {
				sg.URI = tag + "_all.mp4"
				sg.RangeLen = u64p(uint64(len(st.Segs[i])))
				sg.RangeStart = u64p(off)
				p.reqKey[fmt.Sprintf("%s|bytes=%d-%d", origin.ResolveFull(plURL, sg.URI), off, off+uint64(len(st.Segs[i]))-1)] = i
				single = append(single, st.Segs[i]...)
				off += uint64(len(st.Segs[i]))
			}
			pl.Segs = append(pl.Segs, sg)
		}
		if rangeMode != "none" {
			site.Files[origin.Resolve(plURL, tag+"_all.mp4")] = single
		}
		if vod {
			pl.Type = "VOD"
			pl.History = []origin.Window{{First: 0, Count: nSeg, Endlist: true}}
			p.firstSeg = 0
		} else {
			pl.History = []origin.Window{{First: 0, Count: nSeg, Endlist: true}}
			p.firstSeg = nSeg - 3
		}
		site.Playlists[plURL] = pl
		pls = append(pls, p)
		return p
	}

	entry := ""
	if !multi {
		var tr []*origin.Track
		if hasVideo {
			tr = append(tr, mkVideo())
		}
		for a := 0; a < nAudio; a++ {
			at := mkAudio(a)
			if hasVideo || a > 0 {
				skewOf(at)
			}
			tr = append(tr, at)
		}
		if container == "ts" && rng.Intn(3) == 0 {
			// an elementary stream the client does not support, at any position of the PMT
			var ut *origin.Track
			if rng.Intn(2) == 0 {
				ut = &origin.Track{Kind: media.H265, TimeScale: 90000, Params: media.DefaultParamSets(media.H265)[0], Base: t0*90000 + wrapAdj, SampleDur: 900, GOP: segSamples}
			} else {
				ut = &origin.Track{Kind: media.Opus, TimeScale: 90000, Base: t0*90000 + wrapAdj, SampleDur: 1800}
			}
			pos := rng.Intn(len(tr) + 1)
			tr = append(tr[:pos], append([]*origin.Track{ut}, tr[pos:]...)...)
			feats["ts-unsupported-stream"] = true
			if pos == 0 {
				feats["ts-unsupported-stream-first"] = true
			}
		}
		if rng.Intn(3) == 0 && len(tr) > 1 && container == "fmp4" {
			// the video track is not always the first track of the init segment
			tr[0], tr[len(tr)-1] = tr[len(tr)-1], tr[0]
			feats["video-not-first"] = true
		}
		if addPlaylist("main.m3u8", tr, 10) == nil {
			return res
		}
		entry = baseURL + "main.m3u8"
	} else {
		if !hasVideo {
			hasVideo = true
		}
		if nAudio == 0 {
			nAudio = 1
		}
		if addPlaylist("video.m3u8", []*origin.Track{mkVideo()}, 10) == nil {
			return res
		}
		mv := "#EXTM3U\n#EXT-X-VERSION:6\n"
		for a := 0; a < nAudio; a++ {
			at := mkAudio(a)
			skewOf(at)
			name := fmt.Sprintf("a%d.m3u8", a)
			if addPlaylist(name, []*origin.Track{at}, 20+10*a) == nil {
				return res
			}
			mv += fmt.Sprintf("#EXT-X-MEDIA:TYPE=AUDIO,GROUP-ID=\"g\",NAME=\"name%d\",LANGUAGE=\"l%d\",DEFAULT=%s,URI=\"%s\"\n", a, a, map[bool]string{true: "YES", false: "NO"}[a == 1], name)
		}
		mv += "#EXT-X-STREAM-INF:BANDWIDTH=100000,CODECS=\"avc1.42c028,mp4a.40.2\",AUDIO=\"g\"\nvideo.m3u8\n"
		site.Static[baseURL+"index.m3u8"] = mv
		entry = baseURL + "index.m3u8"
	}

	srv := &origin.Server{H: site.Handler()}
	if multi && (uint64(seed)*5+uint64(idx)*11)%9 == 0 && len(pls) > 0 {
		// a slow origin for the leading playlist: the first media segment of the leading stream takes
		// 2.6 s to arrive while the renditions are served at once; nothing may be lost for that
		feats["slow-leading-segment"] = true
		base := site.Handler()
		leadPL := pls[0]
		var once sync.Once
		srv.H = func(req *http.Request, i int) origin.Response {
			r := base(req, i)
			key := origin.ResolveFull(leadPL.url, req.URL.String())
			if j := strings.IndexByte(key, '?'); j >= 0 {
				key = key[:j]
			}
			isSeg := false
			for k := range leadPL.reqKey {
				if strings.HasPrefix(k, key+"|") || strings.HasPrefix(k, req.URL.String()+"|") {
					isSeg = true
				}
			}
			if isSeg && r.Status == 200 {
				once.Do(func() {
					ch := make(chan struct{})
					go func() { time.Sleep(2600 * time.Millisecond); close(ch) }()
					r.Block = ch
				})
			}
			return r
		}
	}
	run := clirun.New(entry, srv.Client())
	if err := run.C.Start(); err != nil {
		fail("harness", "start: %v", err)
		return res
	}
	ended, wedged, census := run.WaitEndOrWedge(func() int { return srv.Count() + run.Delivered() }, 100, 60*time.Second)
	if !ended {
		if !run.CloseWithin(8 * time.Second) {
			fail("close-blocks", "Close() did not return within 8 s")
		}
		run.WaitResult(5 * time.Second)
		res.desc = map[string]any{"seed": seed, "index": idx, "container": container, "features": fmt.Sprint(feats), "segments": nSeg, "vod": vod, "fragments_per_segment": frags}
		if wedged {
			fail("wedged/"+container, "a well-formed finite stream (%d fragments per segment): the client neither ended nor moved for 10 s and all its goroutines are parked: %s (requests %d, units delivered %d)", frags, strings.Join(census, " | "), srv.Count(), run.Delivered())
		} else {
			res.obs["inconclusive_no_end"]++
		}
		return res
	}
	if !errors.Is(run.WaitErr, gohlslib.ErrClientEOS) {
		fail("end", "a well-formed finite stream ended with %v instead of ErrClientEOS", run.WaitErr)
		res.desc = map[string]any{"seed": seed, "index": idx, "container": container, "features": fmt.Sprint(feats), "segments": nSeg, "vod": vod}
		return res
	}
	tracks, units, per := run.Snapshot()

	// expected tracks in client order
	type expTrack struct {
		pl *c10Playlist
		ti int
	}
	var exp []expTrack
	for _, p := range pls {
		for ti, t := range p.stream.Tracks {
			if container == "ts" && t.Kind != media.H264 && t.Kind != media.AAC {
				continue // not supported by the client: must not be reported
			}
			exp = append(exp, expTrack{p, ti})
		}
	}
	if len(tracks) != len(exp) {
		fail("tracks", "client reports %d tracks, the stream has %d", len(tracks), len(exp))
		return res
	}
	// time origin: first DTS of the leading track of the leading playlist in the first downloaded segment
	lp := pls[0]
	leadT := lp.stream.Tracks[lp.lead]
	var origin0 int64 = -1
	for _, sm := range leadT.Samples {
		if sm.Seg >= lp.firstSeg {
			origin0 = sm.DTS
			break
		}
	}
	if origin0 < 0 {
		fail("harness", "no leading sample")
		return res
	}
	leadRate := int64(leadT.TimeScale)

	// seconds of each leading segment's first unit (for AbsoluteTime)
	type anchor struct {
		pdt time.Time
		sec float64 // out time of the anchor in seconds
	}
	var anchors []anchor
	if withPDT {
		for seg := lp.firstSeg; seg < nSeg; seg++ {
			for _, sm := range leadT.Samples {
				if sm.Seg == seg {
					anchors = append(anchors, anchor{*lp.pdts[seg], float64(sm.DTS-origin0) / float64(leadRate)})
					break
				}
			}
		}
	}

	for ci, et := range exp {
		t := et.pl.stream.Tracks[et.ti]
		ct := tracks[ci]
		wantRate := t.TimeScale
		if container == "ts" {
			wantRate = 90000
		}
		if clirun.KindOf(ct.Codec) != t.Kind {
			fail("track-codec", "track %d: client reports %T, stream has %s", ci, ct.Codec, t.Kind)
			continue
		}
		if ct.ClockRate != wantRate {
			fail("track-rate", "track %d (%s): clock rate %d, expected %d", ci, t.Kind, ct.ClockRate, wantRate)
		}
		// origin in this track's rate
		var off int64
		if container == "ts" {
			off = origin0
		} else {
			off = origin0/leadRate*int64(t.TimeScale) + (origin0%leadRate)*int64(t.TimeScale)/leadRate
		}
		// expected delivered list
		type eu struct {
			sm       *origin.Sample
			dts, pts int64
			maybe    bool // on the +-1 tick boundary of the drop rule
		}
		var want []eu
		for _, sm := range t.Samples {
			if sm.Seg < et.pl.firstSeg {
				continue
			}
			d, p := sm.DTS-off, sm.PTS-off
			if p < -1 {
				res.obs["units_expected_dropped"]++
				continue
			}
			want = append(want, eu{sm, d, p, p == -1 || p == 0})
		}
		got := per[ci]
		gi := 0
		for _, w := range want {
			if gi >= len(got) {
				if w.maybe {
					continue
				}
				fail("lost/"+t.Kind.String(), "track %d (%s): unit %d (segment %d) was never delivered; %d of %d delivered", ci, t.Kind, w.sm.Idx, w.sm.Seg, len(got), len(want))
				break
			}
			u := units[got[gi]]
			norm := media.Norm(t.Kind, u.Data)
			if string(norm) != string(w.sm.Norm) {
				if w.maybe {
					continue // dropped at the origin boundary
				}
				_, tagIdx, _ := media.ParseTag(norm)
				fail("order/"+t.Kind.String(), "track %d (%s): delivered unit #%d carries tag %d, expected unit %d (segment %d)", ci, t.Kind, gi, tagIdx, w.sm.Idx, w.sm.Seg)
				break
			}
			gi++
			res.obs["units_checked"]++
			if u.Stamp > et.pl.segDone[w.sm.Seg] {
				et.pl.segDone[w.sm.Seg] = u.Stamp
			}
			if d := u.PTS - w.pts; d < -1 || d > 1 {
				fail("pts/"+container, "track %d (%s): unit %d delivered with pts %d, expected %d (container pts %d, origin %d in this rate)", ci, t.Kind, w.sm.Idx, u.PTS, w.pts, w.sm.PTS, off)
				break
			}
			if u.HasDTS {
				if d := u.DTS - w.dts; d < -1 || d > 1 {
					fail("dts/"+container, "track %d (%s): unit %d delivered with dts %d, expected %d", ci, t.Kind, w.sm.Idx, u.DTS, w.dts)
					break
				}
			}
			if u.PTS < 0 {
				fail("negative", "track %d (%s): unit %d delivered with negative pts %d", ci, t.Kind, w.sm.Idx, u.PTS)
			}
			// absolute time
			if u.HasAbs != withPDT {
				fail("abs-presence", "track %d: AbsoluteTime available=%v, playlist carries PROGRAM-DATE-TIME=%v", ci, u.HasAbs, withPDT)
				break
			}
			if withPDT {
				sec := float64(w.dts) / float64(wantRate)
				ok := false
				tol := 2.0/float64(wantRate) + 2.0/float64(leadRate) + 2e-6
				isLeadTrack := et.pl == lp && et.ti == lp.lead
				for ai, a := range anchors {
					if isLeadTrack && ai != w.sm.Seg-lp.firstSeg {
						continue // leading-track units must use their own segment's date-time
					}
					wantAbs := a.pdt.Add(time.Duration((sec - a.sec) * 1e9))
					if df := u.Abs.Sub(wantAbs).Seconds(); df <= tol && df >= -tol {
						ok = true
						break
					}
				}
				if !ok {
					if os.Getenv("C10_DEBUG") != "" {
						for ai, a := range anchors {
							fmt.Println("anchor", ai, a.pdt.UTC().Format("15:04:05.000000"), a.sec, "unit sec", sec, "abs", u.Abs.UTC().Format("15:04:05.000000"), "isLead", isLeadTrack, "seg", w.sm.Seg, "first", lp.firstSeg)
						}
					}
					fail("abs/"+container, "track %d (%s): unit %d (segment %d) has AbsoluteTime %s; segment date-time %s, unit offset from that segment's first leading unit %.6fs", ci, t.Kind, w.sm.Idx, w.sm.Seg,
						u.Abs.UTC().Format("15:04:05.000000"), lp.pdts[min(w.sm.Seg, nSeg-1)].UTC().Format("15:04:05.000"), sec-anchors[max0(min(w.sm.Seg-lp.firstSeg, len(anchors)-1))].sec)
					break
				}
				res.obs["abs_checked"]++
			}
		}
		if gi < len(got) {
			u := units[got[gi]]
			_, tagIdx, _ := media.ParseTag(media.Norm(t.Kind, u.Data))
			fail("extra/"+t.Kind.String(), "track %d (%s): %d units delivered beyond the expected ones (first has tag %d, pts %d)", ci, t.Kind, len(got)-gi, tagIdx, u.PTS)
		}
	}
	// C20 (end-to-end half): the origin serves everything at once, i.e. much faster than real
	// time; at every segment request the number of segments requested so far minus the number
	// of segments completely delivered must stay <= 3, and segments are delivered in request order
	if len(res.viol) == 0 {
		log := srv.Log()
		for pi, p := range pls {
			var reqSegs []int
			for _, e := range log {
				seg, ok := p.reqKey[e.URL+"|"+e.Range]
				if !ok {
					continue
				}
				reqSegs = append(reqSegs, seg)
				done := 0
				for _, rs := range reqSegs[:len(reqSegs)-1] {
					if st, ok := p.segDone[rs]; !ok || st < e.Call {
						done++
					}
				}
				ahead := len(reqSegs) - done
				if ahead > res.obs["max_lookahead"] {
					res.obs["max_lookahead"] = ahead
				}
				res.obs["lookahead_checks"]++
				if ahead > 3 {
					res.c20viol = append(res.c20viol, fmt.Sprintf("C20/lookahead|playlist %d: at the request of segment %d, %d segments had been requested and only %d completely delivered (look-ahead %d > 3)", pi, seg, len(reqSegs), done, ahead))
					break
				}
			}
			for i := 1; i < len(reqSegs); i++ {
				a, b := p.segDone[reqSegs[i-1]], p.segDone[reqSegs[i]]
				if a != 0 && b != 0 && b < a {
					res.c20viol = append(res.c20viol, fmt.Sprintf("C20/delivery-order|playlist %d: segment %d was requested before segment %d but delivered after it", pi, reqSegs[i-1], reqSegs[i]))
					break
				}
			}
		}
	}
	var ks []string
	for f := range feats {
		ks = append(ks, f)
		res.obs["feature."+f]++
	}
	sort.Strings(ks)
	res.obs["cases."+container]++
	if multi {
		res.obs["cases.renditions"]++
		res.obs[fmt.Sprintf("cases.renditions.%d", nAudio)]++
	}
	if withPDT {
		res.obs["cases.with_pdt"]++
	}
	res.obs["range."+rangeMode]++
	res.sig = fmt.Sprintf("%s|multi%v|v%v|a%d|f%d|pdt%v%v|%s|vod%v|%s", container, multi, hasVideo, nAudio, frags, withPDT, pdtJitter, rangeMode, vod, strings.Join(ks, ","))
	res.desc = map[string]any{"seed": seed, "index": idx, "container": container, "renditions": multi, "audio": nAudio, "fragments_per_segment": frags, "pdt": withPDT,
		"range": rangeMode, "vod": vod, "features": ks, "delivered": len(units), "t0": t0}
	return res
}

func max0(v int) int {
	if v < 0 {
		return 0
	}
	return v
}

func checkC10(tier string, seed int64) int {
	rep := ev.NewReporter("C10")
	n := 400
	if tier == "thorough" {
		n = 12000
	}
	obs, sigs, samples := runClientCases("C10", n, 64, func(idx int) ([]string, map[string]int, string, map[string]any) {
		r := runC10Case(seed, idx)
		return r.viol, r.obs, r.sig, r.desc
	}, rep, func(idx int) any { return map[string]any{"property": "C10", "seed": seed, "index": idx} })
	var inconclusive []string
	for _, k := range []string{"feature.wrap33", "feature.base-2^40", "cases.renditions.3", "feature.pts-offsets", "feature.audio-before-origin", "range.nostart"} {
		if obs[k] < 1 {
			m := fmt.Sprintf("INCONCLUSIVE property=C10 %s observed %d times", k, obs[k])
			fmt.Println(m)
			inconclusive = append(inconclusive, m)
		}
	}
	if len(samples) == 0 {
		samples = append(samples, "none")
	}
	e := &ev.Evidence{
		PropertyID: "C10", Tier: tier, Seed: seed, Level: "exploration",
		Coverage: map[string]any{
			"evaluations": n, "distinct_nontrivial": len(sigs),
			"rule":               "synthesized well-formed streams (mediacommon writers + hand-written playlist printer): MPEG-TS or fMP4, one playlist with 0-1 video + 0-3 audio or video playlist + 1-3 audio renditions with different timescales, base times 0 / random / 2^40 (fMP4) / 33-bit wrap inside the stream (MPEG-TS), B-frame style PTS offsets, 1-3 fragments per segment, whole-file or byte-range (with / without offset) addressing, with / without PROGRAM-DATE-TIME (linear or jumping), VOD or live start; every delivered unit compared with the synthesized one; distinct = distinct configuration signatures",
			"samples":            samples,
			"observed":           obs,
			"inconclusive":       inconclusive,
			"known_findings_hit": rep.KnownHits(),
		},
		Assumptions: []string{
			"well-formed means: container interleaving follows decode time, leading track first on ties; all tracks share one time origin; date-times have millisecond precision",
			"+-1 tick on every converted timestamp; units whose presentation time falls on the -1/0 tick boundary may or may not be delivered",
			"for tracks other than the leading one any leading segment's date-time anchor is accepted (the implementation extrapolates from the last anchor)",
		},
		WallS: rep.Elapsed(), Violations: rep.NewViolations(),
	}
	e.Write()
	fmt.Printf("C10: %d cases, %d distinct, %d units checked, %d absolute times checked, %d new violations, %d known findings, %.1fs\n", n, len(sigs), obs["units_checked"], obs["abs_checked"], rep.NewViolations(), len(rep.KnownHits()), rep.Elapsed())
	if rep.NewViolations() > 0 {
		return 1
	}
	return 0
}

func init() {
	checks["C10"] = checkC10
	replayers["C10"] = func(path string) int {
		b, _ := os.ReadFile(path)
		var doc struct {
			Replay c11Case `json:"replay"`
		}
		if err := jsonUnmarshal(b, &doc); err != nil {
			fmt.Println(err)
			return 2
		}
		r := runC10Case(doc.Replay.Seed, doc.Replay.Index)
		fmt.Println(r.desc)
		for _, v := range r.viol {
			fmt.Println("VIOLATED:", v)
		}
		if len(r.viol) > 0 {
			return 1
		}
		fmt.Println("held on this case")
		return 0
	}
}
