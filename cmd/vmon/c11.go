package main

import (
	"errors"
	"fmt"
	"math/rand"
	"net/url"
	"os"
	"sort"
	"strings"
	"sync"
	"time"

	"github.com/bluenviron/gohlslib/v2"
	"github.com/bluenviron/mediacommon/v2/pkg/codecs/mpeg4audio"
	"verif/internal/clirun"
	"verif/internal/ev"
	"verif/internal/media"
	"verif/internal/origin"
)

// C11 — segment selection against scripted playlist histories.

type c11Rendition struct {
	pl        *origin.Playlist
	stream    *origin.Stream
	uriForm   string
	rangeMode string   // none | start | nostart
	expReq    []string // expected segment request URLs (full, with query)
	expRange  []string
	expEnd    string // eos | error | running
	expPolls  int
}

type c11Case struct {
	Seed  int64 `json:"seed"`
	Index int   `json:"index"`
}

var testParamsH264 = media.Params{SPS: media.H264SPSVectors[1], PPS: media.H264PPS[0]}

func u64p(v uint64) *uint64 { return &v }

// buildRendition creates content + scripted history for one playlist.
func buildRendition(rng *rand.Rand, site *origin.Site, plURL string, container string, tracks []*origin.Track, tagBase int, vodAllowed bool) (*c11Rendition, error) {
	r := &c11Rendition{}
	nTotal := 8 + rng.Intn(9)
	st := &origin.Stream{Container: container, Tracks: tracks}
	if err := st.Build(nTotal, 4+rng.Intn(3), tagBase); err != nil {
		return nil, err
	}
	r.stream = st
	pl := &origin.Playlist{URL: plURL, TargetDuration: 1, BaseMSN: rng.Intn(3) * rng.Intn(1000)}
	defer func() {
		if (nTotal+tagBase)%3 == 0 {
			pl.CanSkipUntilNS = 6e9 // a server that offers delta updates (but no blocking reload)
		}
		if (nTotal+tagBase)%5 == 2 {
			// blocking reload advertised without parts or hints (the two are independent): the
			// playlist is played in regular mode, segment by segment
			pl.CanBlockReload = true
			pl.PartTargetNS = 20e6
		}
		pl.OmitRangeStart = r.rangeMode == "nostart"
		if pl.OmitRangeStart && (nTotal+tagBase)%2 == 1 {
			pl.RangeStartEvery = 2 + nTotal%3 // explicit offsets again in the middle of the run
		}
	}()
	forms := []string{"seg_%d.bin", "sub/dir/seg_%d.bin", "/abs/path/seg_%d.bin", "http://cdn.example.net/x/seg_%d.bin", "../up/seg_%d.bin", "seg_%d.bin?tok=a%%20b&n=1",
		// relative references whose query carries a URL (":" and "/" need no escaping there)
		"seg_%d.bin?origin=https://origin.example/live&n=1", "sub/seg_%d.bin?back=http://a.example/x/y.m3u8"}
	// file names carry the rendition tag so that renditions never share a URL
	r.uriForm = strings.Replace(forms[rng.Intn(len(forms))], "seg_", fmt.Sprintf("r%d_seg_", tagBase), 1)
	r.rangeMode = []string{"none", "none", "start", "nostart"}[rng.Intn(4)]
	base := time.Date(2024, 2, 3, 4, 5, 6, 0, time.UTC)
	withPDT := rng.Intn(2) == 0
	var single []byte
	singleURI := strings.Replace(r.uriForm, "seg_%d", "all", 1)
	off := uint64(0)
	if container == "fmp4" {
		initURI := strings.Replace(r.uriForm, "seg_%d", "init", 1)
		pl.MapURI = initURI
		if r.rangeMode != "none" {
			// init and segments in one file
			single = append(single, st.Init...)
			pl.MapURI = singleURI
			pl.MapRangeLen = u64p(uint64(len(st.Init)))
			pl.MapRangeStart = u64p(0)
			off = uint64(len(st.Init))
		} else {
			site.Files[origin.Resolve(plURL, initURI)] = st.Init
			site.Kinds[origin.Resolve(plURL, initURI)] = "init"
		}
	}
	for i := 0; i < nTotal; i++ {
		sg := origin.Seg{DurNS: st.SegDurNS[i]}
		if withPDT {
			t := base.Add(time.Duration(i) * time.Duration(st.SegDurNS[i]))
			sg.PDT = &t
		}
		if r.rangeMode == "none" {
			sg.URI = fmt.Sprintf(r.uriForm, i)
			site.Files[origin.Resolve(plURL, sg.URI)] = st.Segs[i]
		} else {
			sg.URI = singleURI
			sg.RangeLen = u64p(uint64(len(st.Segs[i])))
			sg.RangeStart = u64p(off)
			single = append(single, st.Segs[i]...)
			off += uint64(len(st.Segs[i]))
		}
		pl.Segs = append(pl.Segs, sg)
	}
	if r.rangeMode != "none" {
		site.Files[origin.Resolve(plURL, singleURI)] = single
	}
	// history
	typ := []string{"", "", "EVENT", "VOD"}[rng.Intn(4)]
	if !vodAllowed && typ == "VOD" {
		typ = ""
	}
	pl.Type = typ
	switch {
	case typ == "VOD":
		first := rng.Intn(3)
		pl.History = []origin.Window{{First: first, Count: nTotal - first, Endlist: true}}
	case (nTotal+tagBase)%6 == 5:
		// a live or event stream that has just ended: ENDLIST already in the first fetch, but not a
		// VOD playlist, so it is joined like any live one, at the third segment from the end
		first := rng.Intn(3)
		pl.History = []origin.Window{{First: first, Count: nTotal - first, Endlist: true}}
	default:
		count := 1 + rng.Intn(10)
		if rng.Intn(3) != 0 && count < 3 {
			count = 3 + rng.Intn(5)
		}
		first := 0
		endAt := -1
		if rng.Intn(3) != 0 {
			endAt = rng.Intn(nTotal + 2)
		}
		if typ == "EVENT" {
			count = 3 + rng.Intn(3)
		}
		for k := 0; k < nTotal+6; k++ {
			if first+count > nTotal {
				count = nTotal - first
			}
			if count < 1 {
				count = 1
				first = nTotal - 1
			}
			w := origin.Window{First: first, Count: count}
			if endAt >= 0 && k >= endAt && first+count >= nTotal {
				w.Endlist = true
			}
			pl.History = append(pl.History, w)
			if w.Endlist {
				break
			}
			adv := []int{0, 1, 1, 1, 1, 2, 3, 7}[rng.Intn(8)]
			if typ == "EVENT" {
				// EVENT playlists only grow
				count += adv
			} else {
				first += adv
				if rng.Intn(5) == 0 {
					count += rng.Intn(3) - 1
					if count < 1 {
						count = 1
					}
				}
			}
		}
	}
	r.pl = pl
	site.Playlists[plURL] = pl
	// reference model of the specified behaviour
	hist := func(k int) origin.Window {
		if k >= len(pl.History) {
			k = len(pl.History) - 1
		}
		return pl.History[k]
	}
	w := hist(0)
	cur := -1
	r.expPolls = 1
	if typ == "VOD" {
		cur = w.First
	} else if w.Count >= 3 {
		cur = w.First + w.Count - 3
	}
	add := func(i int) {
		s := pl.Segs[i]
		r.expReq = append(r.expReq, origin.ResolveFull(plURL, s.URI))
		if s.RangeLen != nil {
			start := *s.RangeStart
			r.expRange = append(r.expRange, fmt.Sprintf("bytes=%d-%d", start, start+*s.RangeLen-1))
		} else {
			r.expRange = append(r.expRange, "")
		}
	}
	if cur < 0 {
		r.expEnd = "error"
		return r, nil
	}
	add(cur)
	for k := 1; k < 200; k++ {
		if w.Endlist && cur == w.First+w.Count-1 {
			r.expEnd = "eos"
			return r, nil
		}
		w = hist(k)
		r.expPolls++
		next := cur + 1
		if next < w.First || next >= w.First+w.Count {
			r.expEnd = "error"
			return r, nil
		}
		if !w.Endlist && (w.First+w.Count-next) > 5 {
			r.expEnd = "error"
			return r, nil
		}
		add(next)
		cur = next
	}
	r.expEnd = "error"
	return r, nil
}

type c11Result struct {
	viol []string
	obs  map[string]int
	sig  string
	desc map[string]any
}

func tsTracks(rng *rand.Rand, video, audio bool, base int64) []*origin.Track {
	var ts []*origin.Track
	if video {
		ts = append(ts, &origin.Track{Kind: media.H264, TimeScale: 90000, Params: testParamsH264, Base: base, SampleDur: 900})
	}
	if audio {
		ts = append(ts, &origin.Track{Kind: media.AAC, TimeScale: 90000, AAC: mpeg4audio.Config{Type: 2, SampleRate: 48000, ChannelCount: 2}, Base: base, SampleDur: 1920})
	}
	return ts
}

// runC11LL: Low-Latency scripted history (preload hints, delta-update directive).
// sameQueryParams: every parameter of want is present, with its value, in got (order and encoding aside).
func sameQueryParams(got, want string) bool {
	g, err1 := url.ParseQuery(got)
	w, err2 := url.ParseQuery(want)
	if err1 != nil || err2 != nil {
		return false
	}
	for k, vs := range w {
		if len(g[k]) != len(vs) {
			return false
		}
		for i := range vs {
			if g[k][i] != vs[i] {
				return false
			}
		}
	}
	return true
}

func runC11LL(seed int64, idx int) *c11Result {
	res := &c11Result{obs: map[string]int{}}
	fail := func(key, f string, a ...any) {
		if len(res.viol) < 10 {
			res.viol = append(res.viol, "C11/"+key+"|"+fmt.Sprintf(f, a...))
		}
	}
	rng := rand.New(rand.NewSource(seed*1201 + int64(idx)*4099 + 29))
	site := origin.NewSite()
	plURL := "http://ll.example.com/s/stream.m3u8"
	t0 := int64(rng.Intn(5000))
	nParts := 5 + rng.Intn(8)
	tracks := []*origin.Track{{Kind: media.H264, TimeScale: 90000, Params: testParamsH264, Base: t0 * 90000, SampleDur: 900}}
	if rng.Intn(2) == 0 {
		tracks = append(tracks, &origin.Track{Kind: media.AAC, TimeScale: 48000, AAC: mpeg4audio.Config{Type: 2, SampleRate: 48000, ChannelCount: 2}, Base: t0 * 48000, SampleDur: 1024})
	}
	st := &origin.Stream{Container: "fmp4", Tracks: tracks}
	// parts 0..2 form the one complete segment that is listed; parts 3.. are hinted one by one
	if err := st.Build(nParts+3, 4, 40); err != nil {
		fail("harness", "build: %v", err)
		return res
	}
	skip := rng.Intn(2) == 0
	form := []string{"part_%d.mp4", "p/part_%d.mp4", "/abs/part_%d.mp4?x=1"}[rng.Intn(3)]
	pl := &origin.Playlist{URL: plURL, TargetDuration: 1, Version: 9, CanBlockReload: true, PartTargetNS: 50e6, MapURI: "init.mp4"}
	if skip {
		pl.CanSkipUntilNS = 6e9
	}
	site.Files[origin.Resolve(plURL, "init.mp4")] = st.Init
	site.Kinds[origin.Resolve(plURL, "init.mp4")] = "init"
	seg0 := append(append(append([]byte{}, st.Segs[0]...), st.Segs[1]...), st.Segs[2]...)
	site.Files[origin.Resolve(plURL, "seg0.mp4")] = seg0
	pdt := time.Date(2024, 5, 6, 7, 8, 9, 0, time.UTC)
	pl.Segs = []origin.Seg{{URI: "seg0.mp4", DurNS: 3 * st.SegDurNS[0], PDT: &pdt}}
	var expHints []string
	// every third Low-Latency case addresses its parts as byte ranges of one resource
	ranged := (idx/6)%3 == 2
	var rangeOff []uint64
	if ranged {
		var all []byte
		for k := 0; k < nParts; k++ {
			rangeOff = append(rangeOff, uint64(len(all)))
			all = append(all, st.Segs[3+k]...)
		}
		u := fmt.Sprintf(form, 0)
		site.Files[origin.Resolve(plURL, u)] = all
		site.Kinds[origin.Resolve(plURL, u)] = "part"
	}
	for k := 0; k <= nParts; k++ {
		pl.History = append(pl.History, origin.Window{First: 0, Count: 1})
		var parts []origin.Part
		for j := 0; j < k; j++ {
			pt := origin.Part{URI: fmt.Sprintf(form, j), DurNS: st.SegDurNS[0]}
			if ranged {
				pt = origin.Part{URI: fmt.Sprintf(form, 0), DurNS: st.SegDurNS[0], RangeLen: uint64(len(st.Segs[3+j])), RangeStart: rangeOff[j]}
			}
			parts = append(parts, pt)
		}
		pl.LLParts = append(pl.LLParts, parts)
		if k < nParts {
			u := fmt.Sprintf(form, k)
			if ranged {
				u = fmt.Sprintf(form, 0)
				pl.LLHintRange = append(pl.LLHintRange, [2]uint64{rangeOff[k], uint64(len(st.Segs[3+k]))})
				expHints = append(expHints, fmt.Sprintf("%s|bytes=%d-%d", origin.ResolveFull(plURL, u), rangeOff[k], rangeOff[k]+uint64(len(st.Segs[3+k]))-1))
			} else {
				pl.LLHintRange = append(pl.LLHintRange, [2]uint64{})
				site.Files[origin.Resolve(plURL, u)] = st.Segs[3+k]
				site.Kinds[origin.Resolve(plURL, u)] = "part"
				expHints = append(expHints, origin.ResolveFull(plURL, u)+"|")
			}
			pl.LLHint = append(pl.LLHint, u)
		} else {
			pl.LLHint = append(pl.LLHint, "") // the hint disappears: the client must stop with an error
			pl.LLHintRange = append(pl.LLHintRange, [2]uint64{})
		}
	}
	site.Playlists[plURL] = pl
	srv := &origin.Server{H: site.Handler()}
	// the playlist URL itself may carry a query (access token): every reload must keep it
	ownQuery := []string{"", "", "token=abc", "u=1&token=a%20b"}[(idx/6)%4]
	entry := plURL
	if ownQuery != "" {
		entry += "?" + ownQuery
	}
	run := clirun.New(entry, srv.Client())
	if err := run.C.Start(); err != nil {
		fail("harness", "start: %v", err)
		return res
	}
	if ended, wedged, census := run.WaitEndOrWedge(func() int { return srv.Count() + run.Delivered() }, 100, 60*time.Second); !ended {
		if !run.CloseWithin(8 * time.Second) {
			fail("close-blocks", "Close() did not return within 8 s")
		}
		run.WaitResult(5 * time.Second)
		if wedged {
			fail("ll-wedged", "the client neither ended nor moved for 10 s and all its goroutines are parked: %s", strings.Join(census, " | "))
		} else {
			res.obs["inconclusive_no_end"]++
		}
		return res
	}
	if run.WaitErr == nil || errors.Is(run.WaitErr, gohlslib.ErrClientEOS) {
		fail("ll-end", "the preload hint disappeared but Wait() yielded %v", run.WaitErr)
	}
	var hints []string
	seq := ""
	for _, e := range srv.Log() {
		base := e.URL
		q := ""
		if i := strings.IndexByte(base, '?'); i >= 0 {
			base, q = base[:i], base[i+1:]
		}
		switch {
		case base == plURL:
			seq += "P"
			hasSkip := strings.Contains(q, "_HLS_skip=YES")
			first := seq == "P"
			if !first && hasSkip != skip {
				fail("ll-skip", "playlist reload carries _HLS_skip=YES: %v, CAN-SKIP-UNTIL advertised: %v (query %q)", hasSkip, skip, q)
			}
			if first && hasSkip {
				fail("ll-skip-first", "the first playlist request already carries _HLS_skip (query %q)", q)
			}
			if ownQuery != "" {
				res.obs["ll_reloads_of_query_carrying_url"]++
				if !sameQueryParams(q, ownQuery) {
					fail("ll-query-lost", "the playlist URL is %s but a reload asked for query %q", entry, q)
				}
			}
		case site.Kinds[base] == "part":
			seq += "H"
			hints = append(hints, e.URL+"|"+e.Range)
		case site.Kinds[base] == "init":
			seq += "I"
		default:
			seq += "G"
		}
	}
	if strings.Contains(seq, "HH") {
		fail("ll-no-reload", "two preload hints requested without a playlist reload in between (%s)", seq)
	}
	if strings.Contains(seq, "G") {
		fail("ll-segment", "a whole segment was requested in Low-Latency mode (%s)", seq)
	}
	if fmt.Sprint(hints) != fmt.Sprint(expHints) {
		fail("ll-hints", "preload hints requested %v, expected %v", shorten(hints), shorten(expHints))
	}
	res.obs["ll_cases"]++
	res.obs["ll_hints_requested"] += len(hints)
	if skip {
		res.obs["ll_skip_advertised"]++
	}
	if ranged {
		res.obs["ll_cases_with_byte_range_hints"]++
	}
	res.sig = fmt.Sprintf("ll|%d|%v|%s|%d|%v|%s", nParts, skip, form, len(tracks), ranged, ownQuery)
	res.desc = map[string]any{"seed": seed, "index": idx, "mode": "low-latency", "parts": nParts, "skip": skip, "requests": seq, "wait": fmt.Sprint(run.WaitErr)}
	return res
}

func runC11Case(seed int64, idx int) *c11Result {
	if idx%6 == 5 {
		return runC11LL(seed, idx)
	}
	res := &c11Result{obs: map[string]int{}}
	t0 := int64(0)
	fail := func(key, f string, a ...any) {
		if len(res.viol) < 10 {
			res.viol = append(res.viol, "C11/"+key+"|"+fmt.Sprintf(f, a...))
		}
	}
	rng := rand.New(rand.NewSource(seed*911 + int64(idx)*7717 + 13))
	t0 = int64(rng.Intn(10000)) // all tracks of a case start at the same instant (seconds)
	site := origin.NewSite()
	container := []string{"ts", "fmp4"}[rng.Intn(2)]
	multi := rng.Intn(2) == 0
	baseURL := "http://origin.example.com/live/a/"
	var rends []*c11Rendition
	entry := ""
	mk := func(name string, tracks []*origin.Track, tagBase int) *c11Rendition {
		r, err := buildRendition(rng, site, baseURL+name, container, tracks, tagBase, len(rends) == 0)
		if err != nil {
			fail("harness", "build: %v", err)
			return nil
		}
		rends = append(rends, r)
		return r
	}
	if !multi {
		var tr []*origin.Track
		if container == "ts" {
			tr = tsTracks(rng, rng.Intn(4) != 0, true, t0*90000)
		} else {
			tr = []*origin.Track{{Kind: media.H264, TimeScale: 90000, Params: testParamsH264, Base: t0 * 90000, SampleDur: 900},
				{Kind: media.AAC, TimeScale: 48000, AAC: mpeg4audio.Config{Type: 2, SampleRate: 48000, ChannelCount: 2}, Base: t0 * 48000, SampleDur: 1024}}
		}
		if mk("stream.m3u8", tr, 10) == nil {
			return res
		}
		entry = baseURL + "stream.m3u8"
	} else {
		var vt []*origin.Track
		if container == "ts" {
			vt = tsTracks(rng, true, false, t0*90000)
		} else {
			vt = []*origin.Track{{Kind: media.H264, TimeScale: 90000, Params: testParamsH264, Base: t0 * 90000, SampleDur: 900}}
		}
		if mk("video.m3u8", vt, 10) == nil {
			return res
		}
		nAud := 1 + rng.Intn(2)
		mv := "#EXTM3U\n#EXT-X-VERSION:6\n#EXT-X-INDEPENDENT-SEGMENTS\n"
		for a := 0; a < nAud; a++ {
			var at []*origin.Track
			if container == "ts" {
				at = tsTracks(rng, false, true, t0*90000)
			} else {
				at = []*origin.Track{{Kind: media.AAC, TimeScale: 48000, AAC: mpeg4audio.Config{Type: 2, SampleRate: 48000, ChannelCount: 2}, Base: t0 * 48000, SampleDur: 1024}}
			}
			name := fmt.Sprintf("aud%d/audio.m3u8", a)
			if mk(name, at, 20+10*a) == nil {
				return res
			}
			mv += fmt.Sprintf("#EXT-X-MEDIA:TYPE=AUDIO,GROUP-ID=\"aud\",NAME=\"a%d\",DEFAULT=%s,URI=\"%s\"\n", a, map[bool]string{true: "YES", false: "NO"}[a == 0], name)
		}
		mv += "#EXT-X-STREAM-INF:BANDWIDTH=100000,CODECS=\"avc1.42c028,mp4a.40.2\",AUDIO=\"aud\"\nvideo.m3u8\n"
		site.Static[baseURL+"index.m3u8"] = mv
		entry = baseURL + "index.m3u8"
	}
	srv := &origin.Server{H: site.Handler()}
	run := clirun.New(entry, srv.Client())
	if err := run.C.Start(); err != nil {
		fail("harness", "start: %v", err)
		return res
	}
	ok := run.WaitResult(40 * time.Second)
	if !ok {
		// every script ends (EOS or error) unless it is still being paced; treat as inconclusive
		if !run.CloseWithin(8 * time.Second) {
			fail("close-blocks", "Close() did not return within 8 s")
		}
		run.WaitResult(5 * time.Second)
		res.obs["inconclusive_no_end"]++
		return res
	}
	log := srv.Log()
	anyError := false
	for _, r := range rends {
		if r.expEnd == "error" {
			anyError = true
		}
	}
	// overall end
	switch {
	case anyError:
		// the first rendition to fail ends the client; the others are cut short
		if run.WaitErr == nil || errors.Is(run.WaitErr, gohlslib.ErrClientEOS) {
			fail("end/no-error", "a rendition runs out of consecutive segments (or falls > 5 behind) but Wait() yielded %v", run.WaitErr)
		}
		res.obs["ends.error"]++
	default:
		if !errors.Is(run.WaitErr, gohlslib.ErrClientEOS) {
			fail("end/no-eos", "every playlist reaches ENDLIST and its last segment but Wait() yielded %v", run.WaitErr)
		}
		res.obs["ends.eos"]++
	}
	// per rendition request sequence
	for ri, r := range rends {
		plKey := r.pl.URL
		var segReqs, segRanges []string
		var kinds []string
		mapURL, initRange := "", ""
		if r.pl.MapURI != "" {
			mapURL = origin.ResolveFull(plKey, r.pl.MapURI)
			if r.pl.MapRangeLen != nil {
				initRange = fmt.Sprintf("bytes=%d-%d", *r.pl.MapRangeStart, *r.pl.MapRangeStart+*r.pl.MapRangeLen-1)
			}
		}
		segURLs := map[string]bool{}
		for i := range r.pl.Segs {
			segURLs[origin.ResolveFull(plKey, r.pl.Segs[i].URI)] = true
		}
		for _, e := range log {
			u := e.URL
			base := u
			if i := strings.IndexByte(base, '?'); i >= 0 {
				base = base[:i]
			}
			if base == plKey {
				kinds = append(kinds, "P")
				// delta updates are a Low-Latency matter for this client: a reload of a regular
				// playlist asks for the whole playlist, whatever the server advertises
				if strings.Contains(u, "_HLS_") {
					fail("directive-in-regular-mode", "rendition %d: playlist reload %s carries an _HLS_ directive although the stream is not played in Low-Latency mode (CAN-SKIP-UNTIL advertised: %v)", ri, u, r.pl.CanSkipUntilNS > 0)
				}
				continue
			}
			if mapURL != "" && u == mapURL && !contains(kinds, "I") && (r.pl.MapRangeLen == nil || e.Range == initRange) {
				kinds = append(kinds, "I")
				continue
			}
			if segURLs[u] {
				kinds = append(kinds, "G")
				segReqs = append(segReqs, u)
				segRanges = append(segRanges, e.Range)
			}
		}
		res.obs["segment_requests"] += len(segReqs)
		res.obs["playlist_polls"] += r.pl.Polls()
		exp := r.expReq
		// when another rendition ended the client first, this one may have been cut short:
		// the observed sequence must be a prefix of the expected one
		cut := anyError
		n := len(segReqs)
		if !cut && n != len(exp) {
			fail("count", "rendition %d (%s, type %q): %d segment requests, expected %d: got %v", ri, r.uriForm, r.pl.Type, n, len(exp), shorten(segReqs))
		}
		if n > len(exp) {
			fail("extra", "rendition %d: segment requested after the expected end: %v (expected %d requests, end %s)", ri, shorten(segReqs[len(exp):]), len(exp), r.expEnd)
			n = len(exp)
		}
		if r.expEnd == "error" && n < len(exp) && len(rends) == 1 {
			fail("short", "rendition %d: only %d of the %d expected segments were requested before the error", ri, n, len(exp))
		}
		for i := 0; i < n; i++ {
			if segReqs[i] != exp[i] {
				fail("order/"+classify(i), "rendition %d (type %q, window history %v): segment request #%d is %s, expected %s", ri, r.pl.Type, r.pl.History, i, segReqs[i], exp[i])
				break
			}
			if segRanges[i] != r.expRange[i] {
				fail("range/"+r.rangeMode, "rendition %d: segment request #%d has Range %q, expected %q (BYTERANGE mode %s)", ri, i, segRanges[i], r.expRange[i], r.rangeMode)
				break
			}
		}
		// a playlist request between consecutive segment requests
		prevG := false
		for _, k := range kinds {
			if k == "G" {
				if prevG {
					fail("no-reload", "rendition %d: two segment requests without a playlist request in between (%s)", ri, strings.Join(kinds, ""))
					break
				}
				prevG = true
			} else if k == "P" {
				prevG = false
			}
		}
		if len(kinds) > 0 && kinds[0] != "P" && !(ri == 0 && !multi) {
			fail("first-request", "rendition %d: first request is not its playlist (%s)", ri, strings.Join(kinds, ""))
		}
		res.obs["renditions_checked"]++
		res.obs["range."+r.rangeMode]++
		res.obs["type."+r.pl.Type]++
		res.obs["end."+r.expEnd]++
	}
	var ks []string
	for _, r := range rends {
		ks = append(ks, fmt.Sprintf("%s/%s/%s/%s/%d", r.pl.Type, r.rangeMode, r.expEnd, r.uriForm, len(r.expReq)))
	}
	sort.Strings(ks)
	res.sig = container + "|" + strings.Join(ks, ";")
	res.desc = map[string]any{"seed": seed, "index": idx, "container": container, "renditions": ks, "wait": fmt.Sprint(run.WaitErr), "requests": len(log)}
	return res
}

func (r *c11Rendition) expReqAll() []string { return r.expReq }

func contains(xs []string, x string) bool {
	for _, v := range xs {
		if v == x {
			return true
		}
	}
	return false
}

func classify(i int) string {
	if i == 0 {
		return "start"
	}
	return "next"
}

func shorten(xs []string) []string {
	var out []string
	for _, x := range xs {
		if i := strings.LastIndexByte(x, '/'); i >= 0 {
			x = x[i+1:]
		}
		out = append(out, x)
	}
	return out
}

func runClientCases(prop string, n int, par int, run func(idx int) (viol []string, obs map[string]int, sig string, desc map[string]any), rep *ev.Reporter, mkReplay func(idx int) any) (map[string]int, map[string]bool, []any) {
	var mu sync.Mutex
	obs := map[string]int{}
	sigs := map[string]bool{}
	var samples []any
	ch := make(chan int)
	var wg sync.WaitGroup
	for w := 0; w < par; w++ {
		wg.Add(1)
		go func(slot int) {
			defer wg.Done()
			for idx := range ch {
				rep.Current(slot, mkReplay(idx))
				viol, o, sig, desc := run(idx)
				mu.Lock()
				for k, v := range o {
					obs[k] += v
				}
				if sig != "" {
					sigs[sig] = true
				}
				if len(samples) < 4 && desc != nil && idx%11 == 3 {
					samples = append(samples, desc)
				}
				mu.Unlock()
				for _, v := range viol {
					k, m := splitKM(v)
					rep.Report(k, fmt.Sprintf("case %d: %s", idx, m), mkReplay(idx))
				}
			}
		}(w)
	}
	for i := 0; i < n; i++ {
		ch <- i
	}
	close(ch)
	wg.Wait()
	return obs, sigs, samples
}

func checkC11(tier string, seed int64) int {
	rep := ev.NewReporter("C11")
	n := 400
	if tier == "thorough" {
		n = 12000
	}
	obs, sigs, samples := runClientCases("C11", n, 64, func(idx int) ([]string, map[string]int, string, map[string]any) {
		r := runC11Case(seed, idx)
		return r.viol, r.obs, r.sig, r.desc
	}, rep, func(idx int) any { return map[string]any{"property": "C11", "seed": seed, "index": idx} })
	if len(samples) == 0 {
		samples = append(samples, "none")
	}
	e := &ev.Evidence{
		PropertyID: "C11", Tier: tier, Seed: seed, Level: "exploration",
		Coverage: map[string]any{
			"evaluations": n, "distinct_nontrivial": len(sigs),
			"rule":               "scripted playlist histories served by an in-process origin: MPEG-TS or fMP4, media playlist or multivariant with 1-2 audio renditions evolving independently; window 1..10, advance 0..7 per poll, ENDLIST at any poll, VOD / EVENT / untyped, six URI forms (relative, nested, path-absolute, absolute on another host, ../, with query), byte ranges with / without start; the request log is compared with a reference model of the specified selection rule; distinct = distinct (container, per-rendition type / range mode / end / URI form / length) signatures",
			"samples":            samples,
			"observed":           obs,
			"known_findings_hit": rep.KnownHits(),
		},
		Assumptions: []string{
			"segments are a few tens of milliseconds of media so that a run takes about a second of real time (the client paces delivery in real time)",
			"when one rendition ends the client with an error the other renditions are only required to have requested a prefix of their expected sequence",
		},
		WallS: rep.Elapsed(), Violations: rep.NewViolations(),
	}
	e.Write()
	fmt.Printf("C11: %d cases, %d distinct, %d segment requests, %d new violations, %d known findings, %.1fs\n", n, len(sigs), obs["segment_requests"], rep.NewViolations(), len(rep.KnownHits()), rep.Elapsed())
	if rep.NewViolations() > 0 {
		return 1
	}
	return 0
}

func init() {
	checks["C11"] = checkC11
	replayers["C11"] = func(path string) int {
		b, _ := os.ReadFile(path)
		var doc struct {
			Replay c11Case `json:"replay"`
		}
		if err := jsonUnmarshal(b, &doc); err != nil {
			fmt.Println(err)
			return 2
		}
		r := runC11Case(doc.Replay.Seed, doc.Replay.Index)
		fmt.Println(r.desc)
		for _, v := range r.viol {
			fmt.Println("VIOLATED:", v)
		}
		if len(r.viol) > 0 {
			return 1
		}
		fmt.Println("held on this case")
		return 0
	}
}
