package main

import (
	"bytes"
	"context"
	"errors"
	"fmt"
	"net/http"
	"net/http/httptest"
	"os"
	"path/filepath"
	"regexp"
	"sort"
	"strconv"
	"strings"
	"sync"
	"sync/atomic"
	"time"

	"github.com/bluenviron/gohlslib/v2"
	"github.com/bluenviron/gohlslib/v2/pkg/codecs"
	"verif/internal/clirun"
	"verif/internal/ev"
	"verif/internal/hx"
	"verif/internal/media"
	"verif/internal/muxrun"
	"verif/internal/origin"
	"verif/internal/racelog"
)

// C09 — a Client reading a Muxer reproduces the written stream.

var reSegURL = regexp.MustCompile(`_([a-z]+[0-9]*)_seg([0-9]+)\.(mp4|ts)`)
var rePartURL = regexp.MustCompile(`_([a-z]+[0-9]*)_part([0-9]+)\.mp4`)
var reStreamPL = regexp.MustCompile(`/([a-z]+[0-9]*)_stream\.m3u8`)

type c09Result struct {
	viol []string
	obs  map[string]int
	sig  string
	desc map[string]any
}

func runC09Case(seed int64, idx int) *c09Result {
	res := &c09Result{obs: map[string]int{}}
	fail := func(key, f string, a ...any) {
		if len(res.viol) < 10 {
			res.viol = append(res.viol, "C09/"+key+"|"+fmt.Sprintf(f, a...))
		}
	}
	variant := 1 + idx%3
	c := media.Gen(seed, 400000+idx, media.GenOpts{Profile: "e2e", Variant: variant, MinSegments: 8, MaxSegments: 9, MaxWrites: 2500})
	c.Query = ""
	if os.Getenv("C09_CASEDEBUG") != "" {
		for i, w := range c.Writes {
			if i >= 25 {
				break
			}
			nal := ""
			for _, n := range w.Data {
				if len(n) > 0 {
					nal += fmt.Sprintf(" %02x/%d", n[0], len(n))
				}
			}
			fmt.Printf("write %d track %d (%v) pts %d%s\n", i, w.Track, c.Tracks[w.Track].Kind, w.PTS, nal)
		}
	}
	h := muxrun.New(c, muxrun.Options{})
	if h.StartErr != "" {
		fail("harness", "start: %s", h.StartErr)
		return res
	}
	defer h.Cleanup()
	ll := variant == media.VarLL
	lead := c.LeadingTrack()
	_ = h.LeadingStream()

	// writer state
	var wmu sync.Mutex
	next := 0           // next write index
	segRot := 0         // segment rotations so far
	partRot := 0        // part rotations so far (LL: = nextPartID)
	var rotWrites []int // write index of every segment rotation
	werr := error(nil)
	hx.OnKey(h.M.VerifKey(), func(point string, arg any) {
		if point != "rotate.unlocked" {
			return
		}
		// runs inside the writer, wmu is held by the caller of DoWrite
		if arg.(string) == "segments" {
			segRot++
			partRot++
			rotWrites = append(rotWrites, next)
		} else {
			partRot++
		}
	})
	writeOne := func() bool { // wmu held
		if next >= len(c.Writes) || werr != nil {
			return false
		}
		if err := h.DoWrite(next); err != nil {
			werr = err
			return false
		}
		next++
		return true
	}
	// complete segments: TS/fMP4 MSN of last complete = segRot-1; LL = 7+segRot-1
	lastComplete := func() int {
		if ll {
			return 6 + segRot
		}
		return segRot - 1
	}
	// prefill: attach the client at a seeded moment, at least 3 (fMP4: 4) complete segments
	prefill := 3 + idx%3
	if variant == media.VarFMP4 {
		prefill++
	}
	wmu.Lock()
	for segRot < prefill && writeOne() {
	}
	wmu.Unlock()
	if werr != nil || segRot < prefill {
		res.obs["inconclusive_short_case"]++
		return res
	}

	var lastDeliveredLeadDTS atomic.Int64
	lastDeliveredLeadDTS.Store(-1 << 62)
	var maxHint atomic.Int64
	maxHint.Store(-1)
	needMSN := map[string]int{} // per stream: highest segment number requested
	var nmu sync.Mutex
	var firstTS []byte // body of the first MPEG-TS segment served to the client

	lastDated := map[string]map[int]bool{} // per stream: segment number -> dated in the last playlist served
	segDated := map[string]map[int]bool{}  // per stream: segment number -> dated in the playlist the client had when it asked for it
	absDebug := os.Getenv("C09_ABSDEBUG") != ""
	var dbgPlaylists []string
	// the transport: every request goes to Muxer.Handle in-process
	srv := &origin.Server{}
	srv.H = func(req *http.Request, _ int) origin.Response {
		rec := httptest.NewRecorder()
		done := make(chan struct{})
		go func() {
			defer close(done)
			defer func() { recover() }()
			h.M.Handle(rec, req)
		}()
		select {
		case <-done:
		case <-req.Context().Done():
			return origin.Response{Status: 499}
		}
		if m := reStreamPL.FindStringSubmatch(req.URL.Path); m != nil && rec.Code == 200 {
			// which of the listed segments carry a date-time in this response (the fMP4 variants
			// only date the last two)
			dated := map[int]bool{}
			pdt := false
			for _, l := range strings.Split(rec.Body.String(), "\n") {
				switch {
				case strings.HasPrefix(l, "#EXT-X-PROGRAM-DATE-TIME"):
					pdt = true
				case l != "" && !strings.HasPrefix(l, "#"):
					if sm := reSegURL.FindStringSubmatch(l); sm != nil {
						n, _ := strconv.Atoi(sm[2])
						dated[n] = pdt
					}
					pdt = false
				}
			}
			nmu.Lock()
			lastDated[m[1]] = dated
			nmu.Unlock()
		}
		if absDebug && strings.HasSuffix(req.URL.Path, "_stream.m3u8") {
			wmu.Lock()
			dbgPlaylists = append(dbgPlaylists, fmt.Sprintf("next=%d %s\n%s", next, req.URL.Path, rec.Body.String()))
			wmu.Unlock()
		}
		if rec.Code == 200 && firstTS == nil && strings.HasSuffix(req.URL.Path, ".ts") {
			nmu.Lock()
			if firstTS == nil {
				firstTS = append([]byte{}, rec.Body.Bytes()...)
			}
			nmu.Unlock()
		}
		if d := os.Getenv("C09_DUMP"); d != "" {
			os.WriteFile(filepath.Join(d, fmt.Sprintf("%d_%s", time.Now().UnixNano(), filepath.Base(req.URL.Path))), rec.Body.Bytes(), 0o644)
		}
		return origin.Response{Status: rec.Code, Body: rec.Body.Bytes(), CType: rec.Header().Get("Content-Type")}
	}
	srv.OnRequest = func(_ int, req *http.Request) {
		p := req.URL.Path
		if m := reSegURL.FindStringSubmatch(p); m != nil {
			n, _ := strconv.Atoi(m[2])
			nmu.Lock()
			if segDated[m[1]] == nil {
				segDated[m[1]] = map[int]bool{}
			}
			segDated[m[1]][n] = lastDated[m[1]][n]
			if n > needMSN[m[1]] {
				needMSN[m[1]] = n
			}
			nmu.Unlock()
			return
		}
		if m := rePartURL.FindStringSubmatch(p); m != nil {
			n, _ := strconv.ParseInt(m[2], 10, 64)
			for {
				old := maxHint.Load()
				if n <= old || maxHint.CompareAndSwap(old, n) {
					break
				}
			}
			return
		}
		if ll {
			return
		}
		if m := reStreamPL.FindStringSubmatch(p); m != nil {
			// demand-gated writer: before a rendition reloads its playlist, make sure the segment
			// after the last one it downloaded is complete
			nmu.Lock()
			need, seen := needMSN[m[1]]
			nmu.Unlock()
			if !seen {
				return
			}
			wmu.Lock()
			for lastComplete() < need+1 && writeOne() {
			}
			wmu.Unlock()
		}
	}
	run := clirun.New("http://mux.local/index.m3u8", srv.Client())
	leadClientTrack := 0
	if variant == media.VarTS {
		leadClientTrack = lead
	}
	run.OnUnitHook = func(_ *clirun.Run, u *clirun.Unit) {
		if u.Track == leadClientTrack {
			d := u.PTS
			if u.HasDTS {
				d = u.DTS
			}
			lastDeliveredLeadDTS.Store(d)
		}
	}
	ctx, cancel := context.WithCancel(context.Background())
	defer cancel()
	var writerDone chan struct{}
	if ll {
		// delivery-gated writer for Low-Latency: the writer runs ahead of what the client has
		// delivered by at most G seconds of media, and always produces the part the client is
		// waiting for (its preload hint request is parked inside the muxer meanwhile)
		writerDone = make(chan struct{})
		rate := int64(c.Tracks[lead].ClockRate)
		leadSamples := c.Samples(lead)
		go func() {
			defer close(writerDone)
			var originDTS int64 = -1 << 62
			for {
				select {
				case <-ctx.Done():
					return
				default:
				}
				wmu.Lock()
				if next >= len(c.Writes) || werr != nil {
					wmu.Unlock()
					return
				}
				w := c.Writes[next]
				allowed := false
				if int64(partRot) <= maxHint.Load() {
					allowed = true // the client waits for a part that is not published yet
				} else if d := lastDeliveredLeadDTS.Load(); d > -1<<61 {
					// delivered DTS are relative to the first delivered leading unit
					if originDTS == -1<<62 {
						originDTS = firstDeliveredLeadWritten(run, c, lead)
					}
					if originDTS != -1<<62 {
						headSec := float64(firstSampleDTS(c, w)-originDTS*int64(c.Tracks[w.Track].ClockRate)/rate) / float64(c.Tracks[w.Track].ClockRate)
						if headSec <= float64(d)/float64(rate)+0.6 {
							allowed = true
						}
					}
				}
				if allowed {
					writeOne()
				}
				wmu.Unlock()
				if !allowed {
					time.Sleep(300 * time.Microsecond)
				}
			}
		}()
		_ = leadSamples
	}
	// parameter sets acceptable in the tracks the client reports: the one in effect at the start of the
	// last segment that was complete when the client was attached, and every one carried by a write
	// between that point and the moment OnTracks runs (C02: once the first complete segment encoded
	// with changed parameters is listed, the init segment carries them)
	wmu.Lock()
	attachStartWrite := 0
	if segRot >= 2 {
		attachStartWrite = rotWrites[segRot-2]
	}
	wmu.Unlock()
	nextAtTracks := -1
	run.OnTracksHook = func(*clirun.Run) {
		if ll {
			wmu.Lock()
			nextAtTracks = next
			wmu.Unlock()
		} else {
			nextAtTracks = next // the demand-gated writer only runs inside requests of this client
		}
	}
	if err := run.C.Start(); err != nil {
		fail("harness", "client start: %v", err)
		return res
	}
	// let it play: until the writes are exhausted and delivered, or the client ends
	ended := false
	deadline := time.Now().Add(25 * time.Second)
	for time.Now().Before(deadline) {
		select {
		case err := <-run.C.Wait():
			run.WaitErr, run.WaitYield = err, true
			ended = true
		case <-time.After(20 * time.Millisecond):
		}
		if ended {
			break
		}
		wmu.Lock()
		fin := next >= len(c.Writes) || werr != nil
		wmu.Unlock()
		if fin && ll {
			time.Sleep(300 * time.Millisecond)
			break
		}
	}
	cancel()
	if !ended {
		if !run.CloseWithin(8 * time.Second) {
			fail("close-blocks", "Close() did not return within 8 s")
		}
		run.WaitResult(10 * time.Second)
	}
	if writerDone != nil {
		select {
		case <-writerDone:
		case <-time.After(5 * time.Second):
		}
	}
	wmu.Lock()
	written := next
	rots := append([]int{}, rotWrites...)
	wmu.Unlock()
	tracks, units, per := run.Snapshot()
	if tracks == nil {
		// the client ended before OnTracks
		if ended && run.WaitErr != nil {
			nmu.Lock()
			declared, present := tsElementaryPIDs(firstTS)
			nmu.Unlock()
			var missing []int
			for _, pid := range declared {
				if !present[pid] {
					missing = append(missing, pid)
				}
			}
			if variant == media.VarTS && len(declared) == len(c.Tracks) && len(missing) > 0 && strings.Contains(run.WaitErr.Error(), "no more packets") {
				// recorded finding (KNOWN_FINDINGS.txt): the first segment the client downloaded
				// declares every track in its PMT but carries no packet of one of them
				fail("no-tracks/mpegts-first-segment-lacks-a-track", "case %d: the client ended with %q before reporting tracks: the first segment it downloaded (%d bytes) declares PIDs %v in its PMT and carries no packet of %v (tracks %s)", idx, run.WaitErr, len(firstTS), declared, missing, kindsOfCase(c))
				return res
			}
			fail("no-tracks/"+kindsOfCase(c), "the client ended with %q before reporting tracks (variant %d, tracks %s)", run.WaitErr, variant, kindsOfCase(c))
		} else {
			res.obs["inconclusive_no_tracks"]++
		}
		return res
	}
	if ended && !ll && written >= len(c.Writes) {
		// the writer ran out of input: the documented end is "next segment not found"
		res.obs["ended_after_input_exhausted"]++
	} else if ended && run.WaitErr != nil && !errors.Is(run.WaitErr, gohlslib.ErrClientEOS) {
		fail("client-error", "the client ended with %q while the stream was still being written (write %d of %d)", run.WaitErr, written, len(c.Writes))
	}

	// expected client track order: leading track first, then the others in muxer order
	var order []int
	if variant == media.VarTS {
		for i := range c.Tracks {
			order = append(order, i)
		}
	} else {
		order = append(order, lead)
		for i := range c.Tracks {
			if i != lead {
				order = append(order, i)
			}
		}
	}
	if len(tracks) != len(order) {
		fail("track-count", "client reports %d tracks, the muxer has %d", len(tracks), len(order))
		return res
	}
	for ci, ti := range order {
		if ti == lead {
			leadClientTrack = ci
		}
	}
	hasVideo := c.Tracks[lead].Kind.IsVideo()
	anyUserDefault := false
	for _, t := range c.Tracks {
		if !t.Kind.IsVideo() && t.IsDefault {
			anyUserDefault = true
		}
	}
	firstRendition := -1
	for i, t := range c.Tracks {
		isRend := variant != media.VarTS && (i != lead || (!t.Kind.IsVideo() && len(c.Tracks) > 1))
		if isRend && firstRendition < 0 {
			firstRendition = i
		}
	}
	_ = hasVideo

	// time origin: DTS of the first delivered leading unit, as written
	leadUnits := per[leadClientTrack]
	if len(leadUnits) == 0 {
		// segments of the leading stream were downloaded and the run went on for seconds: units must
		// have come out
		segReqs := 0
		for _, e := range srv.Log() {
			if (e.Status == 200 || e.Status == 206) && (reSegURL.MatchString(e.URL) || rePartURL.MatchString(e.URL)) {
				segReqs++
			}
		}
		if segReqs >= 3 && (run.WaitErr == nil || errors.Is(run.WaitErr, gohlslib.ErrClientEOS) || !ended) {
			fail("lost-track/"+c.Tracks[lead].Kind.String(), "the client downloaded %d segments / parts but never delivered a unit of the leading track (%s); %d units of other tracks", segReqs, c.Tracks[lead].Kind, len(units))
			var reqs []string
			for _, e := range srv.Log() {
				reqs = append(reqs, fmt.Sprintf("%s->%d", e.URL[strings.LastIndexByte(e.URL, '/')+1:], e.Status))
			}
			res.desc = map[string]any{"seed": seed, "index": idx, "case": c.Describe(), "wait": fmt.Sprint(run.WaitErr), "ended": ended, "requests": reqs, "decode_errors": fmt.Sprint(run.DecodeErrs), "written": written}
		} else {
			res.obs["inconclusive_nothing_delivered"]++
		}
		return res
	}
	firstLead := units[leadUnits[0]]
	_, firstIdx, ok := media.ParseTag(media.Norm(c.Tracks[lead].Kind, firstLead.Data))
	if !ok || firstIdx >= len(c.Samples(lead)) {
		fail("bytes/"+c.Tracks[lead].Kind.String(), "the first delivered leading unit is not one of the written units")
		return res
	}
	originS := c.Samples(lead)[firstIdx]
	leadRate := int64(c.Tracks[lead].ClockRate)

	// segment starts of the leading track (for AbsoluteTime): first kept unit, then the unit
	// written by each rotating write
	segStartIdx := []int{}
	{
		ls := c.Samples(lead)
		for i, s := range ls {
			if !c.Tracks[lead].Kind.IsVideo() || s.RA {
				segStartIdx = append(segStartIdx, i)
				break
			}
		}
		for _, w := range rots {
			for i, s := range ls {
				if s.WriteIdx == w {
					segStartIdx = append(segStartIdx, i)
					break
				}
			}
		}
	}
	multiAULead := false
	for _, w := range c.Writes {
		if w.Track == lead && len(w.Samples) > 1 {
			multiAULead = true
		}
	}

	for ci, ti := range order {
		ts := &c.Tracks[ti]
		ct := tracks[ci]
		if clirun.KindOf(ct.Codec) != ts.Kind {
			fail("track-codec", "client track %d is %T, muxer track %d is %s", ci, ct.Codec, ti, ts.Kind)
			continue
		}
		wantRate := ts.ClockRate
		if variant == media.VarTS {
			wantRate = 90000
		}
		if ct.ClockRate != wantRate {
			fail("track-rate", "client track %d (%s) has clock rate %d, expected %d", ci, ts.Kind, ct.ClockRate, wantRate)
			continue
		}
		if variant != media.VarTS {
			if !codecMatches(ts, ct.Codec) {
				fail("track-params/"+ts.Kind.String(), "client track %d (%s): codec parameters differ from every parameter set written to the muxer", ci, ts.Kind)
			} else if len(ts.ParamSets) > 1 && nextAtTracks >= 0 {
				// which parameter sets may the init segment carry at this point
				inEffect := -1
				ok := map[int]bool{}
				for _, sm := range c.Samples(ti) {
					if sm.ParamIdx < 0 {
						continue
					}
					if sm.WriteIdx <= attachStartWrite {
						inEffect = sm.ParamIdx
					} else if sm.WriteIdx < nextAtTracks {
						ok[sm.ParamIdx] = true
					}
				}
				ok[inEffect] = true
				sub := &media.TrackSpec{Kind: ts.Kind, AAC: ts.AAC, OpusCh: ts.OpusCh}
				for i := range ts.ParamSets {
					if ok[i] {
						sub.ParamSets = append(sub.ParamSets, ts.ParamSets[i])
					}
				}
				res.obs["tracks_checked_against_current_params"]++
				if os.Getenv("C09_DEBUG") != "" {
					fmt.Printf("C09_DEBUG case %d variant %d features %v attachStartWrite %d nextAtTracks %d inEffect %d ok %v matches %v\n", idx, variant, c.Features, attachStartWrite, nextAtTracks, inEffect, keysOf(ok), codecMatches(sub, ct.Codec))
				}
				if !codecMatches(sub, ct.Codec) {
					fail("track-params-stale/"+ts.Kind.String(), "client track %d (%s): the codec parameters it reports are a set written earlier, not the one in effect since write %d (start of the last segment complete at attach time) nor one written since (acceptable sets %v of %d)", ci, ts.Kind, attachStartWrite, keysOf(ok), len(ts.ParamSets))
				}
			}
			isRend := ti != lead
			wantName, wantLang, wantDef := "", "", false
			if isRend {
				wantName = ts.Name
				if wantName == "" {
					wantName = h.StreamOf[ti]
				}
				wantLang = ts.Language
				wantDef = (anyUserDefault && ts.IsDefault) || (!anyUserDefault && ti == firstRendition)
			}
			if ct.Name != wantName || ct.Language != wantLang || ct.IsDefault != wantDef {
				fail("rendition-attrs", "client track %d: name=%q language=%q default=%v; the muxer advertised name=%q language=%q default=%v", ci, ct.Name, ct.Language, ct.IsDefault, wantName, wantLang, wantDef)
			}
		}
		res.obs["tracks_checked"]++
		// units
		samples := c.Samples(ti)
		exp := samples
		prev := -1
		// origin in this track's delivered clock
		var off float64 // exact origin in delivered ticks
		off = float64(originS.DTS) * float64(wantRate) / float64(leadRate)
		if variant == media.VarTS {
			off = float64(originS.DTS/leadRate*90000 + originS.DTS%leadRate*90000/leadRate) // the muxer floors to 90 kHz before the client sees it (split: wall-clock sized values overflow the product)
		}
		for k, ui := range per[ci] {
			u := units[ui]
			var norm []byte
			n := 1
			if variant == media.VarTS && !ts.Kind.IsVideo() {
				// one PES = one write = several access units
				n = len(u.Data)
				norm = u.Data[0]
			} else {
				norm = media.Norm(ts.Kind, u.Data)
			}
			_, tagIdx, ok := media.ParseTag(norm)
			if !ok || tagIdx < 0 || tagIdx >= len(exp) {
				fail("invented/"+ts.Kind.String(), "client track %d: delivered unit #%d is not one of the written units", ci, k)
				break
			}
			w := exp[tagIdx]
			bytesOK := string(norm) == string(w.Norm)
			if variant == media.VarTS && !ts.Kind.IsVideo() {
				for j := 0; j < n && bytesOK; j++ {
					if tagIdx+j >= len(exp) || string(u.Data[j]) != string(exp[tagIdx+j].Norm) {
						bytesOK = false
					}
				}
			}
			if !bytesOK {
				fail("bytes/"+ts.Kind.String(), "client track %d: unit %d delivered with different bytes", ci, tagIdx)
				break
			}
			if prev >= 0 {
				if tagIdx <= prev {
					fail("order/"+ts.Kind.String(), "client track %d: unit %d delivered after unit %d", ci, tagIdx, prev)
					break
				}
				if !ll && tagIdx != prev+1 {
					fail("gap/"+ts.Kind.String(), "client track %d: unit %d delivered after unit %d (units in between lost)", ci, tagIdx, prev)
					break
				}
			}
			prev = tagIdx + n - 1
			res.obs["units_checked"]++
			// time
			wpts := float64(w.PTS) * float64(wantRate) / float64(ts.ClockRate)
			wdts := float64(w.DTS) * float64(wantRate) / float64(ts.ClockRate)
			if d := float64(u.PTS) - (wpts - off); d > 1.01 || d < -1.01 {
				fail("pts/v"+fmt.Sprint(variant), "client track %d (%s): unit %d has pts %d, expected %.2f (written pts %d @%d Hz minus the first delivered leading dts %d @%d Hz)", ci, ts.Kind, tagIdx, u.PTS, wpts-off, w.PTS, ts.ClockRate, originS.DTS, leadRate)
				break
			}
			if u.HasDTS {
				if d := float64(u.DTS) - (wdts - off); d > 1.01 || d < -1.01 {
					fail("dts/v"+fmt.Sprint(variant), "client track %d (%s): unit %d has dts %d, expected %.2f", ci, ts.Kind, tagIdx, u.DTS, wdts-off)
					break
				}
			}
			// absolute time (leading track units against their own segment's date-time)
			if u.HasAbs && ti == lead && !multiAULead {
				si := sort.SearchInts(segStartIdx, tagIdx+1) - 1
				if si >= 0 && variant == media.VarFMP4 {
					// the fMP4 muxer dates the last two segments of a playlist only: a client that is
					// further behind the live edge gets a segment without date-time and goes on with the
					// anchor of the last dated segment it downloaded
					own := si
					nmu.Lock()
					sd := segDated[h.LeadingStream()]
					for si >= 0 && !sd[si] {
						si--
					}
					nmu.Unlock()
					if si < 0 {
						fail("abs-spurious", "client track %d: unit %d has an AbsoluteTime although no segment downloaded so far carried a date-time", ci, tagIdx)
					} else if si != own {
						res.obs["abs_checked_against_an_earlier_dated_segment"]++
					}
				}
				if si >= 0 {
					st := samples[segStartIdx[si]]
					want := st.NTP.Truncate(time.Millisecond).Add(time.Duration(float64(w.DTS-st.DTS) / float64(ts.ClockRate) * 1e9))
					tol := 2*time.Millisecond + 50*time.Microsecond
					if ll {
						tol += 2 * time.Millisecond // hints: date-time of the last segment + text durations of the parts
					}
					if d := u.Abs.Sub(want); d > tol || d < -tol {
						fail("abs/v"+fmt.Sprint(variant), "client track %d: unit %d has AbsoluteTime %s, expected %s (NTP written with the first unit %d of its segment, plus DTS distance)", ci, tagIdx,
							u.Abs.UTC().Format("15:04:05.000000"), want.UTC().Format("15:04:05.000000"), segStartIdx[si])
						if absDebug {
							fmt.Println("ABSDEBUG case", idx, "rots", rots, "segStartIdx", segStartIdx, "unit write", w.WriteIdx)
							for _, pl := range dbgPlaylists {
								fmt.Println("ABSDEBUG PL", pl)
							}
							var reqs []string
							for _, e := range srv.Log() {
								reqs = append(reqs, fmt.Sprintf("%s->%d", e.URL[strings.LastIndexByte(e.URL, '/')+1:], e.Status))
							}
							fmt.Println("ABSDEBUG REQS", reqs)
						}
						break
					}
					res.obs["abs_checked"]++
				}
			}
		}
		res.obs["delivered."+ts.Kind.String()] += len(per[ci])
	}
	// completeness across tracks: pacing keeps the tracks together on the wall clock, so when the run
	// is stopped no track may be seconds of media behind the leading one (a track that is never
	// delivered at all is the extreme case)
	{
		lastSec := func(ci, ti int) (float64, bool) {
			if len(per[ci]) == 0 {
				return 0, false
			}
			u := units[per[ci][len(per[ci])-1]]
			var norm []byte
			if variant == media.VarTS && !c.Tracks[ti].Kind.IsVideo() {
				norm = u.Data[0]
			} else {
				norm = media.Norm(c.Tracks[ti].Kind, u.Data)
			}
			_, tagIdx, ok := media.ParseTag(norm)
			if !ok || tagIdx < 0 || tagIdx >= len(c.Samples(ti)) {
				return 0, false
			}
			return float64(c.Samples(ti)[tagIdx].DTS) / float64(c.Tracks[ti].ClockRate), true
		}
		leadLast, okL := lastSec(leadClientTrack, lead)
		leadFirst := float64(originS.DTS) / float64(leadRate)
		for ci, ti := range order {
			if ti == lead || !okL {
				continue
			}
			res.obs["tracks_checked_for_completeness"]++
			tl, ok := lastSec(ci, ti)
			switch {
			case len(per[ci]) == 0 && leadLast-leadFirst >= 2:
				fail("lost-track/"+c.Tracks[ti].Kind.String(), "client track %d (%s) never delivered a unit while the leading track delivered %.2f s of media", ci, c.Tracks[ti].Kind, leadLast-leadFirst)
			case ok && leadLast-tl > 4:
				fail("lagging-track/"+c.Tracks[ti].Kind.String(), "client track %d (%s) stopped at %.2f s while the leading track reached %.2f s", ci, c.Tracks[ti].Kind, tl, leadLast)
			}
		}
	}
	res.obs["cases_with_delivery"]++
	res.obs[fmt.Sprintf("cases.variant%d", variant)]++
	for f := range c.Features {
		res.obs["feature."+f]++
	}
	for _, t := range c.Tracks {
		if t.Name != "" || t.IsDefault {
			res.obs["cases_with_user_rendition_attrs"]++
			break
		}
	}
	res.sig = fmt.Sprintf("v%d|%s|%d", variant, kindsOfCase(c), prefill)
	res.desc = map[string]any{"seed": seed, "index": idx, "case": c.Describe(), "delivered": len(units), "written": written, "wait": fmt.Sprint(run.WaitErr), "requests": srv.Count()}
	return res
}

func firstSampleDTS(c *media.Case, w media.Write) int64 {
	return c.Samples(w.Track)[w.Samples[0]].DTS
}

// firstDeliveredLeadWritten returns the written DTS of the first delivered leading unit.
func firstDeliveredLeadWritten(run *clirun.Run, c *media.Case, lead int) int64 {
	tracks, units, per := run.Snapshot()
	if tracks == nil {
		return -1 << 62
	}
	for ci := range tracks {
		if clirun.KindOf(tracks[ci].Codec) == c.Tracks[lead].Kind && len(per[ci]) > 0 {
			_, idx, ok := media.ParseTag(media.Norm(c.Tracks[lead].Kind, units[per[ci][0]].Data))
			if ok && idx < len(c.Samples(lead)) {
				return c.Samples(lead)[idx].DTS
			}
		}
		break
	}
	return -1 << 62
}

func keysOf(m map[int]bool) []int {
	var out []int
	for k := range m {
		out = append(out, k)
	}
	sort.Ints(out)
	return out
}

func codecMatches(ts *media.TrackSpec, got codecs.Codec) bool {
	switch g := got.(type) {
	case *codecs.H264:
		for _, p := range ts.ParamSets {
			if bytes.Equal(p.SPS, g.SPS) && bytes.Equal(p.PPS, g.PPS) {
				return true
			}
		}
		// SPS and PPS may come from two consecutive parameter sets
		okS, okP := false, false
		for _, p := range ts.ParamSets {
			okS = okS || bytes.Equal(p.SPS, g.SPS)
			okP = okP || bytes.Equal(p.PPS, g.PPS)
		}
		return okS && okP
	case *codecs.H265:
		okV, okS, okP := false, false, false
		for _, p := range ts.ParamSets {
			okV = okV || bytes.Equal(p.VPS, g.VPS)
			okS = okS || bytes.Equal(p.SPS, g.SPS)
			okP = okP || bytes.Equal(p.PPS, g.PPS)
		}
		return okV && okS && okP
	case *codecs.AV1:
		for _, p := range ts.ParamSets {
			if bytes.Equal(media.NormAV1([][]byte{p.Seq}), media.NormAV1([][]byte{g.SequenceHeader})) {
				return true
			}
		}
		return false
	case *codecs.VP9:
		for _, p := range ts.ParamSets {
			if p.VP9.W == g.Width && p.VP9.H == g.Height && p.VP9.Profile == g.Profile && p.VP9.BitDepth == g.BitDepth && p.VP9.ColorRange == g.ColorRange {
				return true
			}
		}
		return false
	case *codecs.MPEG4Audio:
		return g.Config.Type == ts.AAC.Type && g.Config.SampleRate == ts.AAC.SampleRate && g.Config.ChannelCount == ts.AAC.ChannelCount
	case *codecs.Opus:
		return g.ChannelCount == ts.OpusCh
	}
	return false
}

func checkC09(tier string, seed int64) int {
	rep := ev.NewReporter("C09")
	n := 96
	if tier == "thorough" {
		n = 1500
	}
	obs, sigs, samples := runClientCases("C09", n, 48, func(idx int) ([]string, map[string]int, string, map[string]any) {
		r := runC09Case(seed, idx)
		return r.viol, r.obs, r.sig, r.desc
	}, rep, func(idx int) any { return map[string]any{"property": "C09", "seed": seed, "index": idx} })
	prefix := ""
	for _, kv := range strings.Fields(os.Getenv("GORACE")) {
		if strings.HasPrefix(kv, "log_path=") {
			prefix = strings.TrimPrefix(kv, "log_path=")
		}
	}
	races := 0
	if prefix != "" {
		reports, total := racelog.Parse(prefix + "." + fmt.Sprint(os.Getpid()))
		races = total
		for _, r := range reports {
			if r.HarnessOnly {
				fmt.Printf("HARNESS-RACE (monitor defect, not a verdict about gohlslib): %s\n", r.Key)
				continue
			}
			path := ev.Root + "/replays/C09/race-" + strings.NewReplacer("/", "_", "|", "--", "*", "", "(", "", ")", "").Replace(r.Key) + ".txt"
			os.WriteFile(path, []byte(r.First), 0o644)
			rep.Report("C09/race/"+r.Key, fmt.Sprintf("data race (%d reports) between %s; report in %s", r.Count, r.Key, path), map[string]any{"property": "C09", "race_report": path})
		}
	}
	obs["race_reports"] = races
	var inconclusive []string
	for _, k := range []string{"cases.variant1", "cases.variant2", "cases.variant3", "cases_with_user_rendition_attrs", "abs_checked"} {
		if obs[k] < 1 {
			m := fmt.Sprintf("INCONCLUSIVE property=C09 %s observed %d times", k, obs[k])
			fmt.Println(m)
			inconclusive = append(inconclusive, m)
		}
	}
	if len(samples) == 0 {
		samples = append(samples, "none")
	}
	e := &ev.Evidence{
		PropertyID: "C09", Tier: tier, Seed: seed, Level: "exploration",
		Coverage: map[string]any{
			"evaluations": n, "distinct_nontrivial": len(sigs),
			"rule":               "a real Client whose transport calls Muxer.Handle in-process reads a real Muxer fed by the C01 generator (profile e2e: SegmentMinDuration 0.3-1 s, DTS-merged interleaving, natural clock rates for fMP4, all codecs the muxer accepts, renditions with user names / languages / defaults, parameter changes, negative and wrapping start times); the client is attached after 3-6 complete segments; MPEG-TS / fMP4: the writer is demand-gated (a rendition's playlist reload makes the next segment it needs complete first); Low-Latency: the writer is delivery-gated (at most 0.6 s of media ahead of the delivered position, and always the part whose preload hint is being waited for); distinct = distinct (variant, codec set, attach point)",
			"samples":            samples,
			"observed":           obs,
			"inconclusive":       inconclusive,
			"known_findings_hit": rep.KnownHits(),
		},
		Assumptions: []string{
			"AbsoluteTime is compared for leading-track units only (own segment's date-time + DTS distance, 2 ms tolerance, 4 ms for Low-Latency hints)",
			"the client paces delivery in real time: a run lasts a few seconds and the race detector is on",
		},
		WallS: rep.Elapsed(), Violations: rep.NewViolations(),
	}
	e.Write()
	fmt.Printf("C09: %d cases, %d with delivery, %d units checked, %d absolute times, %d race reports, %d new violations, %d known findings, %.1fs\n",
		n, obs["cases_with_delivery"], obs["units_checked"], obs["abs_checked"], races, rep.NewViolations(), len(rep.KnownHits()), rep.Elapsed())
	if rep.NewViolations() > 0 {
		return 1
	}
	return 0
}

func init() {
	checks["C09"] = checkC09
	replayers["C09"] = func(path string) int {
		b, _ := os.ReadFile(path)
		var doc struct {
			Replay c11Case `json:"replay"`
		}
		if err := jsonUnmarshal(b, &doc); err != nil {
			fmt.Println(err)
			return 2
		}
		r := runC09Case(doc.Replay.Seed, doc.Replay.Index)
		fmt.Println(r.desc)
		fmt.Println(r.obs)
		for _, v := range r.viol {
			fmt.Println("VIOLATED:", v)
		}
		if len(r.viol) > 0 {
			return 1
		}
		fmt.Println("held on this case")
		return 0
	}
}

// tsElementaryPIDs returns the elementary PIDs the first PMT of an MPEG-TS segment declares and the
// set of PIDs that carry at least one packet in it.
func tsElementaryPIDs(b []byte) (declared []int, present map[int]bool) {
	present = map[int]bool{}
	pmtPID := -1
	section := func(p []byte) []byte {
		pl := p[4:]
		if (p[3]>>4)&3 == 3 { // adaptation field
			if int(pl[0])+1 >= len(pl) {
				return nil
			}
			pl = pl[int(pl[0])+1:]
		}
		if len(pl) < 1 || int(pl[0])+1 >= len(pl) {
			return nil
		}
		return pl[int(pl[0])+1:]
	}
	for i := 0; i+188 <= len(b); i += 188 {
		p := b[i : i+188]
		if p[0] != 0x47 {
			continue
		}
		pid := int(p[1]&0x1f)<<8 | int(p[2])
		pusi := p[1]&0x40 != 0
		switch {
		case pid == 0 && pusi && pmtPID < 0:
			if s := section(p); len(s) >= 12 {
				end := 3 + (int(s[1]&0x0f)<<8 | int(s[2])) - 4
				for o := 8; o+4 <= end && o+4 <= len(s); o += 4 {
					if int(s[o])<<8|int(s[o+1]) != 0 {
						pmtPID = int(s[o+2]&0x1f)<<8 | int(s[o+3])
						break
					}
				}
			}
		case pid == pmtPID && pusi && declared == nil:
			if s := section(p); len(s) >= 12 {
				end := 3 + (int(s[1]&0x0f)<<8 | int(s[2])) - 4
				o := 12 + (int(s[10]&0x0f)<<8 | int(s[11]))
				for o+5 <= end && o+5 <= len(s) {
					declared = append(declared, int(s[o+1]&0x1f)<<8|int(s[o+2]))
					o += 5 + (int(s[o+3]&0x0f)<<8 | int(s[o+4]))
				}
			}
		case pid != 0 && pid != pmtPID:
			present[pid] = true
		}
	}
	return declared, present
}
