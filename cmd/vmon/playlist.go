package main

import (
	"bytes"
	"fmt"
	"math/rand"
	"os"
	"os/exec"
	"path/filepath"
	"regexp"
	"runtime"
	"sort"
	"strconv"
	"strings"
	"sync"
	"time"

	"github.com/bluenviron/gohlslib/v2/pkg/playlist"
	"verif/internal/ev"
	"verif/internal/m3u8x"
	"verif/internal/media"
	"verif/internal/muxrun"
	"verif/internal/plx"
)

type plCase struct {
	Property string `json:"property"`
	Seed     int64  `json:"seed"`
	Index    int    `json:"index"`
	Kind     string `json:"kind"`
	Focus    string `json:"focus"`
	Mask     int    `json:"mask"`
	Text     string `json:"text,omitempty"`
}

// plCaseFor maps a case index to (kind, focus tag, mask): the first indices enumerate every
// subset of the optional fields of every tag, the rest are fully random.
func plCaseFor(seed int64, idx int) plCase {
	c := plCase{Property: "C14", Seed: seed, Index: idx}
	i := idx
	for _, ft := range plx.FocusTags {
		n := 1 << uint(ft.Bits)
		if i < n {
			c.Kind, c.Focus, c.Mask = ft.Kind, ft.Tag, i
			return c
		}
		i -= n
	}
	if i%2 == 0 {
		c.Kind = "media"
	} else {
		c.Kind = "multi"
	}
	return c
}

func exhaustiveCount() int {
	n := 0
	for _, ft := range plx.FocusTags {
		n += 1 << uint(ft.Bits)
	}
	return n
}

// forcing the container of a focus tag to be present
func genValue(c plCase) (playlist.Playlist, *plx.Gen) {
	g := &plx.Gen{R: rand.New(rand.NewSource(c.Seed*15485863 + int64(c.Index)*2654435761 + 11)), Focus: c.Focus, Mask: c.Mask}
	for try := 0; ; try++ {
		if c.Kind == "media" {
			m := g.Media()
			ok := true
			switch c.Focus {
			case "servercontrol":
				ok = m.ServerControl != nil
			case "map":
				ok = m.Map != nil
			case "hint":
				ok = m.PreloadHint != nil
			case "part":
				ok = len(m.Parts) > 0 || len(m.Segments[0].Parts) > 0
			case "key":
				ok = false
				for _, s := range m.Segments {
					if s.Key != nil && s.Key.Method != playlist.MediaKeyMethodNone {
						ok = true
					}
				}
			}
			if ok || try > 200 {
				return m, g
			}
			continue
		}
		m := g.Multivariant()
		ok := true
		if c.Focus == "rendition" {
			ok = len(m.Renditions) > 0
		}
		if ok || try > 200 {
			return m, g
		}
	}
}

var reIdx = regexp.MustCompile(`\[[0-9]+\]`)

func diffKey(d string) string {
	p := d
	if i := strings.Index(p, ":"); i >= 0 {
		p = p[:i]
	}
	return reIdx.ReplaceAllString(p, "")
}

var reLine = regexp.MustCompile(`^line [0-9]+: `)
var reQuoted = regexp.MustCompile(`"[^"]*"|[0-9]+`)

func grammarKey(v string) string {
	v = reLine.ReplaceAllString(v, "")
	// keep the tag name and the nature of the problem, drop concrete values
	if i := strings.Index(v, ": "); i >= 0 && i < 40 {
		tag := v[:i]
		rest := v[i+2:]
		if j := strings.Index(rest, ":"); j >= 0 {
			rest = rest[:j]
		}
		rest = reQuoted.ReplaceAllString(rest, "")
		rest = strings.Join(strings.Fields(rest), "-")
		if len(rest) > 50 {
			rest = rest[:50]
		}
		return tag + "/" + rest
	}
	v = reQuoted.ReplaceAllString(v, "")
	v = strings.Join(strings.Fields(v), "-")
	if len(v) > 60 {
		v = v[:60]
	}
	return v
}

func unmarshalAs(kind string, b []byte) (playlist.Playlist, error) {
	if kind == "media" {
		m := &playlist.Media{}
		err := m.Unmarshal(b)
		return m, err
	}
	m := &playlist.Multivariant{}
	err := m.Unmarshal(b)
	return m, err
}

func diffPl(a, b playlist.Playlist) []string {
	switch x := a.(type) {
	case *playlist.Media:
		y, ok := b.(*playlist.Media)
		if !ok {
			return []string{fmt.Sprintf("kind: %T != %T", a, b)}
		}
		return plx.DiffMedia(x, y)
	case *playlist.Multivariant:
		y, ok := b.(*playlist.Multivariant)
		if !ok {
			return []string{fmt.Sprintf("kind: %T != %T", a, b)}
		}
		return plx.DiffMultivariant(x, y)
	}
	return []string{"unknown kind"}
}

// syntactic variants of an encoded playlist
func variantsOf(text string, rng *rand.Rand, kind string) map[string]string {
	out := map[string]string{}
	out["crlf"] = strings.ReplaceAll(text, "\n", "\r\n")
	out["no-trailing-newline"] = strings.TrimSuffix(text, "\n")
	lines := strings.Split(strings.TrimSuffix(text, "\n"), "\n")
	// unknown tags / comments inserted (never between EXT-X-STREAM-INF and its URI line)
	var b strings.Builder
	for i, l := range lines {
		b.WriteString(l + "\n")
		if i == 0 || strings.HasPrefix(l, "#EXT-X-STREAM-INF:") {
			continue
		}
		if rng.Intn(3) == 0 {
			switch rng.Intn(4) {
			case 0:
				b.WriteString("#EXT-X-FUTURE-TAG:FOO=1,BAR=\"x,y\"\n")
			case 1:
				b.WriteString("# just a comment\n")
			case 2:
				b.WriteString("#EXT-X-UNKNOWN\n")
			default:
				b.WriteString("\n")
			}
		}
	}
	out["unknown-tags"] = b.String()
	// a very long unknown tag (session data, a data: URI) right after the header, i.e. before the
	// line that tells the two kinds of playlist apart; sizes around the usual buffer sizes
	if len(lines) > 1 {
		n := []int{4000, 4096, 4097, 5000, 70000}[rng.Intn(5)]
		out["long-unknown-tag"] = lines[0] + "\n#EXT-X-SESSION-DATA:DATA-ID=\"x\",VALUE=\"" + strings.Repeat("Zz09", n/4) + "\"\n" + strings.Join(lines[1:], "\n") + "\n"
	}
	// attribute order shuffled + unknown attributes
	var sb strings.Builder
	for _, l := range lines {
		done := false
		for _, pre := range []string{"#EXT-X-STREAM-INF:", "#EXT-X-MEDIA:", "#EXT-X-PART:", "#EXT-X-MAP:", "#EXT-X-KEY:", "#EXT-X-SERVER-CONTROL:",
			"#EXT-X-PRELOAD-HINT:", "#EXT-X-PART-INF:", "#EXT-X-SKIP:", "#EXT-X-START:"} {
			if strings.HasPrefix(l, pre) {
				pl := m3u8x.Parse([]byte("#EXTM3U\n#EXT-X-TARGETDURATION:1\n" + l + "\n"))
				var attrs []m3u8x.Attr
				for _, t := range pl.Tags {
					if "#"+t.Name+":" == pre {
						attrs = t.Attrs
					}
				}
				if len(attrs) == 0 {
					break
				}
				items := make([]string, 0, len(attrs)+2)
				for _, a := range attrs {
					items = append(items, a.Name+"="+a.Raw)
				}
				if rng.Intn(2) == 0 {
					items = append(items, "X-FUTURE-ATTR=\"a,b=c\"")
				}
				if rng.Intn(2) == 0 {
					items = append(items, "X-NUM=12")
				}
				rng.Shuffle(len(items), func(i, j int) { items[i], items[j] = items[j], items[i] })
				sb.WriteString(pre + strings.Join(items, ",") + "\n")
				done = true
				break
			}
		}
		if !done {
			sb.WriteString(l + "\n")
		}
	}
	out["attr-shuffle"] = sb.String()
	_ = kind
	return out
}

func secondDecoderDiff(p playlist.Playlist, x *m3u8x.Playlist) []string {
	var out []string
	add := func(f string, a, b any) {
		if len(out) < 6 {
			out = append(out, fmt.Sprintf("%s: value %v, independent reader %v", f, a, b))
		}
	}
	durEq := func(a time.Duration, ns int64) bool {
		d := int64(a) - ns
		if d < 0 {
			d = -d
		}
		return d < 10000
	}
	brEq := func(l, s *uint64, br *m3u8x.ByteRange) bool {
		if (l == nil) != (br == nil) {
			return false
		}
		if l == nil {
			return true
		}
		if *l != br.Length || (s == nil) != (br.Start == nil) {
			return false
		}
		return s == nil || *s == *br.Start
	}
	switch m := p.(type) {
	case *playlist.Media:
		if x.Media == nil {
			return []string{"independent reader does not see a media playlist: " + x.Fatal}
		}
		y := x.Media
		if y.Version == nil || *y.Version != m.Version {
			add("Version", m.Version, y.Version)
		}
		if y.Independent != m.IndependentSegments {
			add("IndependentSegments", m.IndependentSegments, y.Independent)
		}
		if (m.Start != nil) != (y.StartOffsetNS != nil) || (m.Start != nil && !durEq(m.Start.TimeOffset, *y.StartOffsetNS)) {
			add("Start", m.Start != nil, y.StartOffsetNS != nil)
		}
		if (m.AllowCache != nil) != (y.AllowCache != nil) || (m.AllowCache != nil && *m.AllowCache != *y.AllowCache) {
			add("AllowCache", m.AllowCache != nil, y.AllowCache != nil)
		}
		if y.TargetDuration != m.TargetDuration {
			add("TargetDuration", m.TargetDuration, y.TargetDuration)
		}
		if y.MediaSequence != m.MediaSequence {
			add("MediaSequence", m.MediaSequence, y.MediaSequence)
		}
		if (m.DiscontinuitySequence != nil) != (y.DiscSeq != nil) || (y.DiscSeq != nil && *y.DiscSeq != *m.DiscontinuitySequence) {
			a, b := any("<nil>"), any("<nil>")
			if m.DiscontinuitySequence != nil {
				a = *m.DiscontinuitySequence
			}
			if y.DiscSeq != nil {
				b = *y.DiscSeq
			}
			add("DiscontinuitySequence", a, b)
		}
		pt := ""
		if m.PlaylistType != nil {
			pt = string(*m.PlaylistType)
		}
		if pt != y.PlaylistType {
			add("PlaylistType", pt, y.PlaylistType)
		}
		if (m.ServerControl != nil) != (y.ServerControl != nil) {
			add("ServerControl", m.ServerControl != nil, y.ServerControl != nil)
		} else if m.ServerControl != nil {
			if m.ServerControl.CanBlockReload != y.ServerControl.CanBlockReload {
				add("ServerControl.CanBlockReload", m.ServerControl.CanBlockReload, y.ServerControl.CanBlockReload)
			}
			if (m.ServerControl.PartHoldBack != nil) != (y.ServerControl.PartHoldBackNS != nil) || (m.ServerControl.PartHoldBack != nil && !durEq(*m.ServerControl.PartHoldBack, *y.ServerControl.PartHoldBackNS)) {
				add("ServerControl.PartHoldBack", m.ServerControl.PartHoldBack != nil, y.ServerControl.PartHoldBackNS != nil)
			}
			if (m.ServerControl.CanSkipUntil != nil) != (y.ServerControl.CanSkipUntilNS != nil) || (m.ServerControl.CanSkipUntil != nil && !durEq(*m.ServerControl.CanSkipUntil, *y.ServerControl.CanSkipUntilNS)) {
				add("ServerControl.CanSkipUntil", m.ServerControl.CanSkipUntil != nil, y.ServerControl.CanSkipUntilNS != nil)
			}
		}
		if (m.PartInf != nil) != (y.PartTargetNS != nil) || (m.PartInf != nil && !durEq(m.PartInf.PartTarget, *y.PartTargetNS)) {
			add("PartInf", m.PartInf != nil, y.PartTargetNS != nil)
		}
		if (m.Map != nil) != y.HasMap {
			add("Map", m.Map != nil, y.HasMap)
		} else if m.Map != nil {
			if m.Map.URI != y.MapURI {
				add("Map.URI", m.Map.URI, y.MapURI)
			}
			if !brEq(m.Map.ByteRangeLength, m.Map.ByteRangeStart, y.MapByteRange) {
				add("Map.ByteRange", "value", "differs")
			}
		}
		if (m.Skip != nil) != (y.Skip != nil) || (m.Skip != nil && m.Skip.SkippedSegments != *y.Skip) {
			add("Skip", m.Skip != nil, y.Skip != nil)
		}
		partsEq := func(where string, a []*playlist.MediaPart, b []m3u8x.Part) {
			if len(a) != len(b) {
				add(where+"(len)", len(a), len(b))
				return
			}
			for i := range a {
				if a[i].URI != b[i].URI || !durEq(a[i].Duration, b[i].DurNS) || a[i].Independent != b[i].Independent || a[i].Gap != b[i].Gap ||
					!brEq(a[i].ByteRangeLength, a[i].ByteRangeStart, b[i].ByteRange) {
					add(where, *a[i], b[i])
				}
			}
		}
		if len(m.Segments) != len(y.Segments) {
			add("Segments(len)", len(m.Segments), len(y.Segments))
		} else {
			for i, s := range m.Segments {
				t := y.Segments[i]
				if s.URI != t.URI {
					add("Segments.URI", s.URI, t.URI)
				}
				if !durEq(s.Duration, t.DurNS) {
					add("Segments.Duration", s.Duration, t.DurNS)
				}
				if s.Title != strings.TrimSpace(t.Title) {
					add("Segments.Title", s.Title, t.Title)
				}
				if s.Gap != t.Gap || s.Discontinuity != t.Disc {
					add("Segments.flags", fmt.Sprint(s.Gap, s.Discontinuity), fmt.Sprint(t.Gap, t.Disc))
				}
				if (s.DateTime != nil) != (t.PDT != nil) {
					add("Segments.DateTime", s.DateTime != nil, t.PDT != nil)
				} else if s.DateTime != nil {
					d := s.DateTime.Sub(*t.PDT)
					if d >= time.Millisecond || d <= -time.Millisecond {
						add("Segments.DateTime", s.DateTime, t.PDTRaw)
					}
				}
				if (s.Bitrate != nil) != (t.Bitrate != nil) || (s.Bitrate != nil && *s.Bitrate != *t.Bitrate) {
					add("Segments.Bitrate", s.Bitrate != nil, t.Bitrate != nil)
				}
				if !brEq(s.ByteRangeLength, s.ByteRangeStart, t.ByteRange) {
					add("Segments.ByteRange", "value", "differs")
				}
				if (s.Key != nil) != (t.Key != nil) {
					add("Segments.Key", s.Key != nil, t.Key != nil)
				} else if s.Key != nil {
					if string(s.Key.Method) != t.Key.Method || s.Key.URI != t.Key.URI || s.Key.IV != t.Key.IV || s.Key.KeyFormat != t.Key.KeyFormat || s.Key.KeyFormatVersions != t.Key.KeyFormatVersions {
						add("Segments.Key", *s.Key, *t.Key)
					}
				}
				partsEq("Segments.Parts", s.Parts, t.Parts)
			}
		}
		partsEq("Parts", m.Parts, y.TrailingParts)
		if (m.PreloadHint != nil) != (y.Hint != nil) {
			add("PreloadHint", m.PreloadHint != nil, y.Hint != nil)
		} else if m.PreloadHint != nil {
			if m.PreloadHint.URI != y.Hint.URI {
				add("PreloadHint.URI", m.PreloadHint.URI, y.Hint.URI)
			}
			st := uint64(0)
			if y.Hint.RangeStart != nil {
				st = *y.Hint.RangeStart
			}
			if st != m.PreloadHint.ByteRangeStart {
				add("PreloadHint.ByteRangeStart", m.PreloadHint.ByteRangeStart, st)
			}
			if (m.PreloadHint.ByteRangeLength != nil) != (y.Hint.RangeLength != nil) || (y.Hint.RangeLength != nil && *y.Hint.RangeLength != *m.PreloadHint.ByteRangeLength) {
				add("PreloadHint.ByteRangeLength", m.PreloadHint.ByteRangeLength != nil, y.Hint.RangeLength != nil)
			}
		}
		if m.Endlist != y.EndList {
			add("Endlist", m.Endlist, y.EndList)
		}
	case *playlist.Multivariant:
		if x.Multivariant == nil {
			return []string{"independent reader does not see a multivariant playlist: " + x.Fatal}
		}
		y := x.Multivariant
		if y.Version == nil || *y.Version != m.Version {
			add("Version", m.Version, y.Version)
		}
		if y.Independent != m.IndependentSegments {
			add("IndependentSegments", m.IndependentSegments, y.Independent)
		}
		if (m.Start != nil) != (y.StartOffsetNS != nil) || (m.Start != nil && !durEq(m.Start.TimeOffset, *y.StartOffsetNS)) {
			add("Start", m.Start != nil, y.StartOffsetNS != nil)
		}
		if len(m.Variants) != len(y.Variants) {
			add("Variants(len)", len(m.Variants), len(y.Variants))
		} else {
			for i, v := range m.Variants {
				w := y.Variants[i]
				if v.URI != w.URI || v.Bandwidth != w.Bandwidth || strings.Join(v.Codecs, ",") != strings.Join(w.Codecs, ",") || v.Resolution != w.Resolution ||
					v.Audio != w.Audio || v.Video != w.Video || v.Subtitles != w.Subtitles || v.ClosedCaptions != w.ClosedCaptions {
					add("Variants", *v, w)
				}
				if (v.AverageBandwidth != nil) != (w.AvgBandwidth != nil) || (v.AverageBandwidth != nil && *v.AverageBandwidth != *w.AvgBandwidth) {
					add("Variants.AverageBandwidth", v.AverageBandwidth != nil, w.AvgBandwidth != nil)
				}
				if (v.FrameRate != nil) != (w.FrameRate != nil) || (v.FrameRate != nil && (*v.FrameRate-*w.FrameRate > 0.001 || *w.FrameRate-*v.FrameRate > 0.001)) {
					add("Variants.FrameRate", v.FrameRate != nil, w.FrameRateRaw)
				}
			}
		}
		if len(m.Renditions) != len(y.Renditions) {
			add("Renditions(len)", len(m.Renditions), len(y.Renditions))
		} else {
			sp := func(p *string) string {
				if p == nil {
					return "<nil>"
				}
				return *p
			}
			for i, r := range m.Renditions {
				w := y.Renditions[i]
				if string(r.Type) != w.Type || r.GroupID != w.GroupID || r.Name != w.Name || r.Language != w.Language || r.Default != w.Default ||
					r.Autoselect != w.Autoselect || r.Forced != w.Forced || sp(r.URI) != sp(w.URI) || sp(r.Channels) != sp(w.Channels) || sp(r.InStreamID) != sp(w.InstreamID) {
					add("Renditions", *r, w)
				}
			}
		}
	}
	return out
}

type plResult struct {
	viol14 []string // key|msg
	viol15 []string
	obs    map[string]int
	sig    string
	sample string
}

func runPlCase(c plCase) *plResult {
	res := &plResult{obs: map[string]int{}}
	f14 := func(key, f string, a ...any) { res.viol14 = append(res.viol14, "C14/"+key+"|"+fmt.Sprintf(f, a...)) }
	f15 := func(key, f string, a ...any) { res.viol15 = append(res.viol15, "C15/"+key+"|"+fmt.Sprintf(f, a...)) }
	defer func() {
		if p := recover(); p != nil {
			f14("panic", "panic: %v", p)
			f15("panic", "panic: %v", p)
		}
	}()
	p, g := genValue(c)
	b, err := p.Marshal()
	if err != nil {
		f14("marshal-error", "Marshal failed: %v", err)
		return res
	}
	res.sample = string(b)
	res.sig = fmt.Sprintf("%s/%s/%d", c.Kind, c.Focus, c.Mask)
	if c.Focus == "" {
		res.sig = fmt.Sprintf("%s/%x", c.Kind, len(b))
	}
	res.obs["values."+c.Kind]++
	// round trip
	q, err := unmarshalAs(c.Kind, b)
	if err != nil {
		f14("roundtrip-error", "Unmarshal(Marshal(p)) failed: %v", err)
	} else {
		for _, d := range diffPl(p, q) {
			f14("roundtrip/"+diffKey(d), "Unmarshal(Marshal(p)) differs: %s", d)
		}
		b2, err := q.Marshal()
		if err != nil || !bytes.Equal(b, b2) {
			f14("fixpoint", "Marshal(Unmarshal(Marshal(p))) differs from Marshal(p)")
		}
		res.obs["roundtrips"]++
	}
	// kind detection
	any1, err := playlist.Unmarshal(b)
	if err != nil {
		f14("kind-error", "playlist.Unmarshal failed: %v", err)
	} else {
		if ds := diffPl(p, any1); len(ds) > 0 {
			f14("kind/"+diffKey(ds[0]), "playlist.Unmarshal: %s", ds[0])
		}
		res.obs["kind_checks"]++
	}
	// second decoder + strict grammar
	x := m3u8x.Parse(b)
	for _, d := range secondDecoderDiff(p, x) {
		f14("second-decoder/"+diffKey(d), "%s", d)
	}
	res.obs["second_decoder_checks"]++
	if g.EmptyServerControl {
		// a server-control value without any attribute is in C14's range (every subset of the
		// optional fields) but not a "valid value" for C15's encoder clause: the tag then has an
		// empty attribute list
		res.obs["values_with_empty_server_control"]++
	} else {
		for _, v := range x.Violations {
			f15("grammar/"+grammarKey(v), "Marshal output violates the grammar: %s", v)
		}
		res.obs["grammar_checks"]++
	}
	// syntactic variants
	for name, text := range variantsOf(string(b), g.R, c.Kind) {
		q, err := unmarshalAs(c.Kind, []byte(text))
		if err != nil {
			f14("variant/"+name+"/error", "variant %s does not decode: %v", name, err)
			continue
		}
		if ds := diffPl(p, q); len(ds) > 0 {
			f14("variant/"+name+"/"+diffKey(ds[0]), "variant %s decodes differently: %s", name, ds[0])
		}
		if q2, err := playlist.Unmarshal([]byte(text)); err != nil {
			f14("variant/"+name+"/kind-error", "playlist.Unmarshal of variant %s failed: %v", name, err)
		} else if ds := diffPl(p, q2); len(ds) > 0 {
			f14("variant/"+name+"/kind", "playlist.Unmarshal of variant %s: %s", name, ds[0])
		}
		res.obs["variants."+name]++
	}
	return res
}

func splitKM(v string) (string, string) {
	if i := strings.IndexByte(v, '|'); i >= 0 {
		return v[:i], v[i+1:]
	}
	return v, ""
}

func checkC14(tier string, seed int64) int {
	rep := ev.NewReporter("C14")
	ex := exhaustiveCount()
	n := ex + 4000
	if tier == "thorough" {
		n = ex*8 + 400000
	}
	obs, sigs, samples := runPlCases(rep, nil, seed, n, tier)
	e := &ev.Evidence{
		PropertyID: "C14", Tier: tier, Seed: seed, Level: "exploration",
		Coverage: map[string]any{
			"evaluations": n, "distinct_nontrivial": len(sigs),
			"rule":               fmt.Sprintf("the first %d cases enumerate every subset of the optional fields of every tag (media, server-control, segment, part, map, preload-hint, key, multivariant, variant, rendition), the rest are random legal values; every value is a non-trivial case; distinct = distinct (kind, focus tag, subset) or (kind, encoded size)", ex),
			"samples":            samples,
			"observed":           obs,
			"exhaustive_subsets": ex,
			"known_findings_hit": rep.KnownHits(),
		},
		Assumptions: []string{
			"values follow the documented field requirements: non-zero durations, non-empty URIs / names / group ids, keys never reverting to 'no key', titles without leading/trailing blanks, strings without quotes or line breaks, CODECS non-empty",
			"durations are compared by absolute difference < 10 us, instants < 1 ms, frame rates <= 0.001",
		},
		WallS: rep.Elapsed(), Violations: rep.NewViolations(),
	}
	e.Write()
	fmt.Printf("C14: %d values, %d distinct, %d new violations, %d known findings, %.1fs\n", n, len(sigs), rep.NewViolations(), len(rep.KnownHits()), rep.Elapsed())
	if rep.NewViolations() > 0 {
		return 1
	}
	return 0
}

// runPlCases runs the playlist value cases, reporting C14 clauses to rep14 and C15 clauses to rep15.
func runPlCases(rep14, rep15 *ev.Reporter, seed int64, n int, tier string) (map[string]int, map[string]bool, []any) {
	var mu sync.Mutex
	obs := map[string]int{}
	sigs := map[string]bool{}
	var samples []any
	ch := make(chan int)
	var wg sync.WaitGroup
	for w := 0; w < runtime.NumCPU(); w++ {
		wg.Add(1)
		go func(slot int) {
			defer wg.Done()
			for idx := range ch {
				c := plCaseFor(seed, idx)
				if rep14 != nil {
					rep14.Current(slot, c)
				}
				r := runPlCase(c)
				mu.Lock()
				for k, v := range r.obs {
					obs[k] += v
				}
				sigs[r.sig] = true
				if len(samples) < 3 && idx%977 == 5 {
					samples = append(samples, map[string]any{"case": c, "encoded": r.sample})
				}
				mu.Unlock()
				c.Text = r.sample
				if rep14 != nil {
					for _, v := range r.viol14 {
						k, m := splitKM(v)
						rep14.Report(k, fmt.Sprintf("value %d: %s", idx, m), c)
					}
				}
				if rep15 != nil {
					c15 := c
					c15.Property = "C15"
					for _, v := range r.viol15 {
						k, m := splitKM(v)
						rep15.Report(k, fmt.Sprintf("value %d: %s", idx, m), c15)
					}
				}
			}
		}(w)
	}
	for i := 0; i < n; i++ {
		ch <- i
	}
	close(ch)
	wg.Wait()
	if len(samples) == 0 {
		c := plCaseFor(seed, 5)
		samples = append(samples, map[string]any{"case": c, "encoded": runPlCase(c).sample})
	}
	return obs, sigs, samples
}

// ---- C15

var hostileValues = []string{"2147483647", "2147483648", "4294967295", "4294967296", "9223372036854775807", "9223372036854775808", "18446744073709551615",
	"", "-1", "0", "0.0", "NaN", "Inf", "-Inf", "1e999", "1e-999", "99999999999999999999999999", "0x", "\"", "\"\"", "a\"b",
	",", "=", "YES", "NO", "MAP", "PART", "NONE", "@", "1@", "@1", "18446744073709551616", "00000000000000000001", " ", "\t", "1.5.5", "+1", "1e3", "0.000000001", "0.0000000001", "#", "\r"}

func mutateText(text string, rng *rand.Rand) string {
	lines := strings.Split(text, "\n")
	for k := 0; k < 1+rng.Intn(3); k++ {
		if len(lines) == 0 {
			break
		}
		i := rng.Intn(len(lines))
		switch rng.Intn(10) {
		case 0: // delete a line
			lines = append(lines[:i], lines[i+1:]...)
		case 1: // duplicate a line
			lines = append(lines[:i+1], lines[i:]...)
		case 2: // swap two lines
			j := rng.Intn(len(lines))
			lines[i], lines[j] = lines[j], lines[i]
		case 3: // truncate the text
			t := strings.Join(lines, "\n")
			if len(t) > 0 {
				t = t[:rng.Intn(len(t))]
			}
			lines = strings.Split(t, "\n")
		case 4, 5: // replace an attribute or tag value by a hostile one
			l := lines[i]
			hv := hostileValues[rng.Intn(len(hostileValues))]
			if eqs := allIndex(l, '='); len(eqs) > 0 {
				e := eqs[rng.Intn(len(eqs))]
				end := strings.IndexByte(l[e:], ',')
				if end < 0 {
					end = len(l) - e
				}
				lines[i] = l[:e+1] + hv + l[e+end:]
			} else if c := strings.IndexByte(l, ':'); c >= 0 {
				lines[i] = l[:c+1] + hv
			}
		case 6: // blank the line, or leave only white space on it
			lines[i] = []string{"", "", " ", "\t", " \r", "   "}[rng.Intn(6)]
		case 7: // replace a URI line by a tag-like one or vice versa
			if strings.HasPrefix(lines[i], "#") {
				lines[i] = lines[i][1:]
			} else {
				lines[i] = "#" + lines[i]
			}
		case 9: // respell an enumerated value (TYPE=AUDIO, METHOD=AES-128, YES ...): other case, or
			// characters that Unicode case folding maps onto the ASCII letters
			l := lines[i]
			var sites [][2]int
			for _, e := range allIndex(l, '=') {
				j := e + 1
				for j < len(l) && (l[j] >= 'A' && l[j] <= 'Z' || l[j] == '-' || l[j] >= '0' && l[j] <= '9') {
					j++
				}
				if j > e+1 && (j == len(l) || l[j] == ',') && strings.ContainsAny(l[e+1:j], "ABCDEFGHIJKLMNOPQRSTUVWXYZ") {
					sites = append(sites, [2]int{e + 1, j})
				}
			}
			if len(sites) > 0 {
				st := sites[rng.Intn(len(sites))]
				v := l[st[0]:st[1]]
				switch rng.Intn(4) {
				case 0:
					v = strings.ToLower(v)
				case 1:
					v = v[:1] + strings.ToLower(v[1:])
				case 2:
					v = strings.NewReplacer("S", "\u017f", "K", "\u212a").Replace(v)
				case 3:
					b := []byte(v)
					k := rng.Intn(len(b))
					if b[k] >= 'A' && b[k] <= 'Z' {
						b[k] += 'a' - 'A'
					}
					v = string(b)
				}
				lines[i] = l[:st[0]] + v + l[st[1]:]
			}
		case 8: // insert a stray tag
			stray := []string{"#EXTINF:", "#EXTINF:1", "#EXT-X-PART:", "#EXT-X-STREAM-INF:", "#EXT-X-MEDIA:TYPE=AUDIO", "#EXT-X-MAP:URI=\"\"", "#EXT-X-PRELOAD-HINT:TYPE=PART,URI=\"\"", "#EXT-X-PRELOAD-HINT:TYPE=MAP,URI=\"init.mp4\"", "#EXT-X-PRELOAD-HINT:TYPE=MAP", "#EXT-X-PRELOAD-HINT:URI=\"p.mp4\"", "#EXT-X-MEDIA:TYPE=CLOSED-CAPTIONS,GROUP-ID=\"c\",NAME=\"n\",INSTREAM-ID=\"CC1\"",
				"#EXT-X-SKIP:SKIPPED-SEGMENTS=1", "#EXT-X-SERVER-CONTROL:", "#EXT-X-START:TIME-OFFSET=", "#EXT-X-STREAM-INF:BANDWIDTH=1", "#EXT-X-I-FRAME-STREAM-INF:BANDWIDTH=1,URI=\"i.m3u8\"", "#EXT-X-GAP", "#EXT-X-BITRATE:", "#EXT-X-DISCONTINUITY",
				"#EXT-X-PART:DURATION=0,URI=\"x\"", "#EXT-X-PART-INF:PART-TARGET=0", "#EXT-X-TARGETDURATION:0", "#EXT-X-KEY:METHOD=AES-128", "#EXT-X-BYTERANGE:", "#EXTM3U"}
			lines = append(lines[:i], append([]string{stray[rng.Intn(len(stray))]}, lines[i:]...)...)
		}
	}
	return strings.Join(lines, "\n")
}

var intBoundaries = []string{"2147483647", "2147483648", "4294967295", "4294967296", "9223372036854775807", "9223372036854775808", "18446744073709551615", "18446744073709551616"}

// intBoundaryVariant replaces one decimal-integer of a tag line (outside quoted strings, not part of
// a decimal-floating-point, hexadecimal or date value) by a boundary value. It returns the new text
// and TAG or TAG/ATTRIBUTE of the replaced number.
func intBoundaryVariant(text string, rng *rand.Rand) (string, string, bool) {
	type site struct {
		line, from, to int
		tag            string
	}
	var sites []site
	lines := strings.Split(text, "\n")
	for li, l := range lines {
		if !strings.HasPrefix(l, "#EXT") || strings.HasPrefix(l, "#EXT-X-PROGRAM-DATE-TIME") || strings.HasPrefix(l, "#EXTINF") {
			continue
		}
		colon := strings.IndexByte(l, ':')
		if colon < 0 {
			continue
		}
		tag := l[1:colon]
		inQ := false
		attrStart := colon + 1
		for i := colon + 1; i < len(l); i++ {
			ch := l[i]
			if ch == '"' {
				inQ = !inQ
				continue
			}
			if inQ {
				continue
			}
			if ch == ',' {
				attrStart = i + 1
				continue
			}
			if ch >= '0' && ch <= '9' && (i == colon+1 || !(l[i-1] >= '0' && l[i-1] <= '9')) {
				j := i
				for j < len(l) && l[j] >= '0' && l[j] <= '9' {
					j++
				}
				// the token the digits belong to
				k := i
				for k > attrStart && l[k-1] != '=' {
					k--
				}
				tokEnd := j
				for tokEnd < len(l) && l[tokEnd] != ',' {
					tokEnd++
				}
				tok := l[k:tokEnd]
				name := tag
				if eq := strings.IndexByte(l[attrStart:i], '='); eq >= 0 {
					name = tag + "/" + l[attrStart:attrStart+eq]
				}
				if strings.ContainsAny(tok, ".xXabcdefABCDEF-:TZ") && !strings.ContainsAny(tok, "@") {
					i = j - 1
					continue
				}
				if strings.ContainsAny(tok, ".") {
					i = j - 1
					continue
				}
				sites = append(sites, site{li, i, j, name})
				i = j - 1
			}
		}
	}
	if len(sites) == 0 {
		return "", "", false
	}
	st := sites[rng.Intn(len(sites))]
	l := lines[st.line]
	lines[st.line] = l[:st.from] + intBoundaries[rng.Intn(len(intBoundaries))] + l[st.to:]
	return strings.Join(lines, "\n"), st.tag, true
}

func firstDiffLine(a, b string) string {
	la, lb := strings.Split(a, "\n"), strings.Split(b, "\n")
	for i := range lb {
		if i >= len(la) || la[i] != lb[i] {
			return lb[i]
		}
	}
	return "(re-marshaled text is shorter)"
}

func allIndex(s string, c byte) []int {
	var out []int
	for i := 0; i < len(s); i++ {
		if s[i] == c {
			out = append(out, i)
		}
	}
	return out
}

func decodeAndCheck(b []byte) (decoded bool, problems []string) {
	decoded, problems, _ = decodeAndCheck2(b)
	return
}

// decodeAndCheck2 also returns the grammar violations of the re-marshaled decoded playlists.
func decodeAndCheck2(b []byte) (decoded bool, problems []string, regrammar []string) {
	defer func() {
		if p := recover(); p != nil {
			problems = append(problems, fmt.Sprintf("panic: %v", p))
		}
	}()
	for _, f := range []func() (playlist.Playlist, error){
		func() (playlist.Playlist, error) { return playlist.Unmarshal(b) },
		func() (playlist.Playlist, error) { m := &playlist.Media{}; return m, m.Unmarshal(b) },
		func() (playlist.Playlist, error) { m := &playlist.Multivariant{}; return m, m.Unmarshal(b) },
	} {
		pl, err := f()
		if err != nil {
			continue
		}
		decoded = true
		problems = append(problems, plx.CheckDecoded(pl)...)
		if out, err := pl.Marshal(); err == nil {
			regrammar = append(regrammar, m3u8x.Parse(out).Violations...)
		}
	}
	return
}

var reDigits = regexp.MustCompile(`[0-9]+`)

func checkC15(tier string, seed int64) int {
	rep := ev.NewReporter("C15")
	obs := map[string]int{}
	// (1) encoder output of the C14 value space under the strict grammar
	nVal := exhaustiveCount() + 3000
	if tier == "thorough" {
		nVal = exhaustiveCount()*4 + 200000
	}
	o1, sigs, samples := runPlCases(nil, rep, seed, nVal, tier)
	obs["encoder_values_checked"] = o1["grammar_checks"]

	// (0) termination on degenerate documents: every decoder entry point (the generic one and the two
	// concrete ones, which callers that know the kind use directly) on documents without any content,
	// without a header, or cut inside the header - each under a watchdog, because a decoder that spins
	// cannot be interrupted, only reported
	for i, doc := range degenerateDocs() {
		doc := doc
		c := plCase{Property: "C15", Text: doc}
		rep.Current(0, c)
		var probs []string
		if !within(20*time.Second, func() { _, probs = decodeAndCheck([]byte(doc)) }) {
			rep.Report("C15/termination/degenerate-document", fmt.Sprintf("degenerate document %d (%q): a decoder did not return within 20 s", i, doc), c)
			continue
		}
		obs["degenerate_documents_decoded_in_time"]++
		for _, pr := range probs {
			rep.Report("C15/post/degenerate-document", fmt.Sprintf("degenerate document %d (%q): %s", i, doc, pr), c)
		}
	}

	// (2) grammar-based mutation of encoded playlists: decoder total + post-conditions
	nMut := 60000
	if tier == "thorough" {
		nMut = 3000000
	}
	var mu sync.Mutex
	var wg sync.WaitGroup
	ch := make(chan int)
	for w := 0; w < runtime.NumCPU(); w++ {
		wg.Add(1)
		go func(slot int) {
			defer wg.Done()
			for idx := range ch {
				c := plCaseFor(seed, exhaustiveCount()+idx%5000)
				p, _ := genValue(c)
				b, _ := p.Marshal()
				rng := rand.New(rand.NewSource(seed*6700417 + int64(idx)))
				text := mutateText(string(b), rng)
				c.Property, c.Text = "C15", text
				rep.Current(slot, c)
				var dec bool
				var probs, regr []string
				if !within(60*time.Second, func() { dec, probs, regr = decodeAndCheck2([]byte(text)) }) {
					rep.Report("C15/termination/mutant", fmt.Sprintf("mutant %d: a decoder did not return within 60 s", idx), c)
					continue
				}
				mu.Lock()
				obs["mutants_tried"]++
				if dec {
					obs["mutants_decoded"]++
					obs["mutants_remarshaled_under_grammar"]++
				}
				mu.Unlock()
				_ = regr // whether a re-marshaled *lenient* decode is grammatical is not demanded (see Assumptions)
				for _, pr := range probs {
					key := "post/" + strings.Join(strings.Fields(reDigits.ReplaceAllString(pr, "")), "-")
					if len(key) > 70 {
						key = key[:70]
					}
					rep.Report("C15/"+key, fmt.Sprintf("mutant %d: %s", idx, pr), c)
				}
			}
		}(w)
	}
	for i := 0; i < nMut; i++ {
		ch <- i
	}
	close(ch)
	wg.Wait()

	// (2b) integer boundaries: one decimal-integer of an encoded playlist is replaced by a boundary
	// value (2^31-1 ... 2^64); the decoder may refuse it, but when it accepts the text it must keep the
	// number: re-marshaling gives the same text back (no silent wrap, truncation or saturation)
	nB := 6000
	if tier == "thorough" {
		nB = 300000
	}
	ch3 := make(chan int)
	for w := 0; w < runtime.NumCPU(); w++ {
		wg.Add(1)
		go func(slot int) {
			defer wg.Done()
			for idx := range ch3 {
				c := plCaseFor(seed, exhaustiveCount()+idx%5000)
				p, _ := genValue(c)
				b, _ := p.Marshal()
				rng := rand.New(rand.NewSource(seed*2750159 + int64(idx)))
				text, tag, ok := intBoundaryVariant(string(b), rng)
				if !ok {
					continue
				}
				c.Property, c.Text = "C15", text
				rep.Current(slot, c)
				func() {
					defer func() {
						if pv := recover(); pv != nil {
							rep.Report("C15/post/panic", fmt.Sprintf("boundary variant %d: panic: %v", idx, pv), c)
						}
					}()
					pl, err := playlist.Unmarshal([]byte(text))
					mu.Lock()
					obs["int_boundary_variants"]++
					obs["int_boundary_site."+tag]++
					if err == nil {
						obs["int_boundary_variants_accepted"]++
					}
					mu.Unlock()
					if err != nil {
						return
					}
					out, err := pl.Marshal()
					if err != nil {
						rep.Report("C15/int-boundary/"+tag+"/marshal", fmt.Sprintf("boundary variant %d (%s) decodes but cannot be marshaled again: %v", idx, tag, err), c)
						return
					}
					if string(out) != text {
						rep.Report("C15/int-boundary/"+tag, fmt.Sprintf("boundary variant %d: the decoder accepts the text but does not keep the number of %s: re-marshaled line %q", idx, tag, firstDiffLine(text, string(out))), c)
					}
				}()
			}
		}(w)
	}
	for i := 0; i < nB; i++ {
		ch3 <- i
	}
	close(ch3)
	wg.Wait()

	// (3) playlists served by real muxers under the strict grammar
	nMux := 120
	if tier == "thorough" {
		nMux = 3000
	}
	servedSeen := map[string]bool{}
	ch2 := make(chan int)
	for w := 0; w < runtime.NumCPU(); w++ {
		wg.Add(1)
		go func() {
			defer wg.Done()
			for idx := range ch2 {
				c := media.Gen(seed, idx, media.GenOpts{Profile: "general", MaxWrites: 600})
				h := muxrun.Run(c, muxrun.Options{NoFetch: true})
				ref := caseRef{"C15", seed, idx, tier}
				for _, r := range h.Rounds {
					all := []*muxrun.StreamObs{r.MV}
					for _, s := range r.Streams {
						all = append(all, s)
					}
					for _, so := range all {
						if so == nil || so.PL == nil {
							continue
						}
						mu.Lock()
						obs["served_playlists_checked"]++
						fresh := !servedSeen[string(so.Resp.Body)]
						servedSeen[string(so.Resp.Body)] = true
						mu.Unlock()
						if !fresh {
							continue
						}
						for _, v := range so.PL.Violations {
							rep.Report("C15/served-grammar/"+grammarKey(v), fmt.Sprintf("muxer case %d round %d: %s", idx, r.N, v), ref)
						}
						// (whether gohlslib's own decoder accepts it is not part of C15; C09 reads muxers with
						// a real client)
						if dec, probs := decodeAndCheck(so.Resp.Body); dec {
							mu.Lock()
							obs["served_playlists_decoded"]++
							mu.Unlock()
							for _, pr := range probs {
								rep.Report("C15/served-post", fmt.Sprintf("muxer case %d round %d: %s", idx, r.N, pr), ref)
							}
						}
					}
				}
			}
		}()
	}
	for i := 0; i < nMux; i++ {
		ch2 <- i
	}
	close(ch2)
	wg.Wait()
	obs["served_playlists_distinct"] = len(servedSeen)

	// (4) native coverage-guided fuzzing of the three decoders (execution counts, not seconds)
	fuzzN := 150000
	if tier == "thorough" {
		fuzzN = 6000000
	}
	for _, target := range []string{"FuzzUnmarshal", "FuzzMediaUnmarshal", "FuzzMultivariantUnmarshal"} {
		execs, failFile, out := runGoFuzz("./internal/plfuzz", target, fuzzN)
		obs["fuzz_execs."+target] = execs
		if failFile != "" {
			rep.Report("C15/fuzz/"+target, fmt.Sprintf("go test -fuzz=%s failed: %s", target, firstLines(out, 6)), map[string]any{"property": "C15", "fuzz_input": failFile})
		} else if execs == 0 {
			fmt.Printf("INCONCLUSIVE property=C15 fuzz target %s did not run: %s\n", target, firstLines(out, 4))
		}
	}

	keys := make([]string, 0, len(obs))
	for k := range obs {
		keys = append(keys, k)
	}
	sort.Strings(keys)
	e := &ev.Evidence{
		PropertyID: "C15", Tier: tier, Seed: seed, Level: "exploration",
		Coverage: map[string]any{
			"evaluations":         nVal + nMut + obs["served_playlists_checked"] + obs["fuzz_execs.FuzzUnmarshal"] + obs["fuzz_execs.FuzzMediaUnmarshal"] + obs["fuzz_execs.FuzzMultivariantUnmarshal"],
			"distinct_nontrivial": len(sigs) + obs["mutants_decoded"] + len(servedSeen),
			"rule":                "(1) every Marshal output of the C14 value space parsed by the strict m3u8x grammar; (2) seeded line/attribute mutations of encoded playlists fed to Unmarshal / Media.Unmarshal / Multivariant.Unmarshal with the structural post-conditions and a re-Marshal on success; (3) every distinct playlist served by real muxers parsed by the grammar and by gohlslib's own decoder; (2b) one decimal-integer of an encoded playlist replaced by a boundary value (2^31-1..2^64): refused, or kept exactly by a re-Marshal; (4) go test -fuzz on the three decoders for a fixed number of executions. distinct_nontrivial = distinct encoded values + mutants that decoded successfully + distinct served playlists",
			"samples":             samples,
			"observed":            obs,
			"known_findings_hit":  rep.KnownHits(),
		},
		Assumptions: []string{
			"the strict grammar is the one of DESIGN.md appendix B (RFC 8216 + 8216bis lexical classes, placement, multiplicity); version-compatibility rules are not part of it",
			"whether a re-marshaled decoded playlist parses again is not demanded (the property only says it can be marshaled)",
		},
		WallS: rep.Elapsed(), Violations: rep.NewViolations(),
	}
	e.Write()
	fmt.Printf("C15: %d encoder values, %d mutants (%d decoded), %d served playlists (%d distinct), fuzz execs %d/%d/%d, %d new violations, %d known findings, %.1fs\n",
		nVal, nMut, obs["mutants_decoded"], obs["served_playlists_checked"], len(servedSeen),
		obs["fuzz_execs.FuzzUnmarshal"], obs["fuzz_execs.FuzzMediaUnmarshal"], obs["fuzz_execs.FuzzMultivariantUnmarshal"],
		rep.NewViolations(), len(rep.KnownHits()), rep.Elapsed())
	if rep.NewViolations() > 0 {
		return 1
	}
	return 0
}

func firstLines(s string, n int) string {
	ls := strings.Split(s, "\n")
	if len(ls) > n {
		ls = ls[:n]
	}
	return strings.Join(ls, " | ")
}

var reExecs = regexp.MustCompile(`execs: ([0-9]+)`)
var reFailFile = regexp.MustCompile(`Failing input written to (\S+)`)

// runGoFuzz runs one native fuzz target for a fixed number of executions.
func runGoFuzz(pkg, target string, n int) (int, string, string) {
	cmd := exec.Command("go", "test", "-tags", "verif", "-run", "^$", "-fuzz", "^"+target+"$", "-fuzztime", strconv.Itoa(n)+"x", pkg)
	cmd.Dir = ev.Root
	cmd.Env = append(os.Environ(), "GOFLAGS=-mod=mod", "GOPROXY=off", "GOSUMDB=off", "GOTOOLCHAIN=local")
	var buf bytes.Buffer
	cmd.Stdout = &buf
	cmd.Stderr = &buf
	err := cmd.Run()
	out := buf.String()
	execs := 0
	for _, m := range reExecs.FindAllStringSubmatch(out, -1) {
		v, _ := strconv.Atoi(m[1])
		if v > execs {
			execs = v
		}
	}
	if err != nil {
		if m := reFailFile.FindStringSubmatch(out); m != nil {
			// move the failing input out of testdata (where it would become a seed of every later
			// run, also on other trees) into the replay directory of the property
			src := filepath.Join(ev.Root, strings.TrimPrefix(pkg, "./"), m[1])
			prop := "C15"
			if strings.Contains(pkg, "clifuzz") {
				prop = "C13"
			}
			dst := filepath.Join(ev.Root, "replays", prop, "fuzz-"+target+"-"+filepath.Base(m[1]))
			os.MkdirAll(filepath.Dir(dst), 0o755)
			if b, rerr := os.ReadFile(src); rerr == nil {
				os.WriteFile(dst, b, 0o644)
				os.Remove(src)
				os.Remove(filepath.Dir(src))
				os.Remove(filepath.Dir(filepath.Dir(src)))
				os.Remove(filepath.Dir(filepath.Dir(filepath.Dir(src))))
			}
			return execs, dst, out
		}
		if strings.Contains(out, "FAIL") {
			return execs, "unknown", out
		}
		return 0, "", out
	}
	return execs, "", out
}

func init() {
	checks["C14"] = checkC14
	checks["C15"] = checkC15
	rp := func(path string) int {
		b, _ := os.ReadFile(path)
		var doc struct {
			Replay plCase `json:"replay"`
		}
		if err := jsonUnmarshal(b, &doc); err != nil {
			fmt.Println(err)
			return 2
		}
		c := doc.Replay
		if c.Property == "C15" && c.Text != "" {
			dec, probs := decodeAndCheck([]byte(c.Text))
			x := m3u8x.Parse([]byte(c.Text))
			fmt.Printf("decoded=%v problems=%v grammar=%v\n", dec, probs, x.Violations)
			if len(probs) > 0 {
				return 1
			}
		}
		r := runPlCase(c)
		fmt.Println(r.sample)
		for _, v := range append(r.viol14, r.viol15...) {
			fmt.Println("VIOLATED:", v)
		}
		if len(r.viol14)+len(r.viol15) > 0 {
			return 1
		}
		fmt.Println("held on this value")
		return 0
	}
	replayers["C14"] = rp
	replayers["C15"] = rp
}

// degenerateDocs lists documents without content, without a header or cut inside the first lines.
func degenerateDocs() []string {
	docs := []string{"", "\n", "\r\n", "\r", "\n\n\n", "\r\n\r\n", " ", " \n", "\t\n", "\x00", "\xef\xbb\xbf", "\xef\xbb\xbf\n",
		"#", "#\n", "#EXT", "#EXTM3U", "#EXTM3U\n", "#EXTM3U\r\n", "#EXTM3U\n\n", "\n#EXTM3U\n", "\n\n#EXTM3U\n#EXT-X-TARGETDURATION:2\n#EXTINF:1,\na\n",
		"#EXTM3U\n#EXTINF:1,", "#EXTM3U\n#EXTINF:1,\n", "#EXTM3U\n#EXT-X-STREAM-INF:BANDWIDTH=1", "#EXTM3U\n#EXT-X-STREAM-INF:BANDWIDTH=1\n",
		"#EXTINF:1,\na\n", "#EXT-X-STREAM-INF:BANDWIDTH=1\na\n", "\n#EXTINF:1,\na\n", "\r\n#EXT-X-STREAM-INF:BANDWIDTH=1\r\na\r\n"}
	for n := 1; n <= 4096; n *= 8 {
		docs = append(docs, strings.Repeat("\n", n), strings.Repeat("\r\n", n), strings.Repeat(" ", n), strings.Repeat("\n", n)+"#EXTM3U\n#EXT-X-TARGETDURATION:2\n#EXTINF:1,\na\n")
	}
	return docs
}
