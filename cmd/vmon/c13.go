package main

import (
	"bufio"
	"bytes"
	"encoding/binary"
	"encoding/json"
	"errors"
	"fmt"
	"math/rand"
	"os"
	"os/exec"
	"sort"
	"strconv"
	"strings"
	"time"

	"github.com/bluenviron/gohlslib/v2"
	"github.com/bluenviron/mediacommon/v2/pkg/codecs/mpeg4audio"
	"github.com/bluenviron/mediacommon/v2/pkg/formats/fmp4"
	"github.com/bluenviron/mediacommon/v2/pkg/formats/fmp4/seekablebuffer"
	"github.com/bluenviron/mediacommon/v2/pkg/formats/mpegts"
	"verif/internal/clirun"
	"verif/internal/ev"
	"verif/internal/media"
	"verif/internal/origin"
)

// C13 — hostile / unsupported server content cannot crash or wedge the client.

type c13Case struct {
	Bare  bool `json:"bare,omitempty"`
	Name  string
	Site  *origin.Site
	Entry string
	// Endless marks origins that legitimately keep a client busy for ever (they keep sending
	// deliverable data); every other origin is finite: the client must end by itself
	Endless bool
}

func marshalInit(tracks []*fmp4.InitTrack) []byte {
	i := fmp4.Init{Tracks: tracks}
	var b seekablebuffer.Buffer
	if err := i.Marshal(&b); err != nil {
		return []byte("init-marshal-error:" + err.Error())
	}
	return b.Bytes()
}

func marshalParts(parts ...*fmp4.Part) []byte {
	var out []byte
	for _, p := range parts {
		var b seekablebuffer.Buffer
		if err := p.Marshal(&b); err != nil {
			return append(out, []byte("part-marshal-error:"+err.Error())...)
		}
		out = append(out, b.Bytes()...)
	}
	return out
}

func h264Sample(idx int, ra bool) *fmp4.PartSample {
	ps := &fmp4.PartSample{Duration: 1800}
	u := [][]byte{append([]byte{0x41}, media.Tag(1, idx)...)}
	if ra {
		u = [][]byte{testParamsH264.SPS, testParamsH264.PPS, append([]byte{0x65}, media.Tag(1, idx)...)}
	}
	ps.FillH264(0, u)
	ps.Duration = 1800
	return ps
}

func rawSamples(n int, dur uint32) []*fmp4.PartSample {
	var out []*fmp4.PartSample
	for i := 0; i < n; i++ {
		out = append(out, &fmp4.PartSample{Duration: dur, Payload: append([]byte{0xff, 0xf1}, media.Tag(2, i)...)})
	}
	return out
}

func h264Samples(n int) []*fmp4.PartSample {
	var out []*fmp4.PartSample
	for i := 0; i < n; i++ {
		out = append(out, h264Sample(i, i == 0))
	}
	return out
}

var aacCfg = mpeg4audio.Config{Type: 2, SampleRate: 48000, ChannelCount: 2}

func h264Init(id int) *fmp4.InitTrack {
	return &fmp4.InitTrack{ID: id, TimeScale: 90000, Codec: &fmp4.CodecH264{SPS: testParamsH264.SPS, PPS: testParamsH264.PPS}}
}

func aacInit(id int) *fmp4.InitTrack {
	return &fmp4.InitTrack{ID: id, TimeScale: 48000, Codec: &fmp4.CodecMPEG4Audio{Config: aacCfg}}
}

// vodFMP4 registers a VOD fMP4 playlist serving the given init and segment bodies.
func vodFMP4(site *origin.Site, plURL string, init []byte, segs [][]byte, tag string) {
	vodFMP4PDT(site, plURL, init, segs, tag, false)
}

func vodFMP4PDT(site *origin.Site, plURL string, init []byte, segs [][]byte, tag string, pdt bool) {
	pl := &origin.Playlist{URL: plURL, TargetDuration: 1, Type: "VOD"}
	if init != nil {
		pl.MapURI = tag + "_init.mp4"
		site.Files[origin.Resolve(plURL, pl.MapURI)] = init
		site.Kinds[origin.Resolve(plURL, pl.MapURI)] = "init"
	}
	for i, s := range segs {
		u := fmt.Sprintf("%s_seg%d.bin", tag, i)
		site.Files[origin.Resolve(plURL, u)] = s
		sg := origin.Seg{URI: u, DurNS: 80e6}
		if pdt {
			t := time.Date(2025, 1, 2, 3, 4, 5, 0, time.UTC).Add(time.Duration(i) * 80 * time.Millisecond)
			sg.PDT = &t
		}
		pl.Segs = append(pl.Segs, sg)
	}
	pl.History = []origin.Window{{First: 0, Count: len(segs), Endlist: true}}
	site.Playlists[plURL] = pl
}

type box struct {
	off, size int
	typ       string
}

func walkBoxes(b []byte, base int, out *[]box) {
	containers := map[string]bool{"moov": true, "trak": true, "mdia": true, "minf": true, "stbl": true, "mvex": true, "moof": true, "traf": true, "dinf": true, "edts": true}
	i := 0
	for i+8 <= len(b) {
		sz := int(binary.BigEndian.Uint32(b[i:]))
		typ := string(b[i+4 : i+8])
		if sz < 8 || i+sz > len(b) {
			return
		}
		*out = append(*out, box{base + i, sz, typ})
		if containers[typ] {
			walkBoxes(b[i+8:i+sz], base+i+8, out)
		}
		i += sz
	}
}

func goodFMP4() ([]byte, [][]byte) {
	init := marshalInit([]*fmp4.InitTrack{h264Init(1), aacInit(2)})
	var segs [][]byte
	for s := 0; s < 3; s++ {
		p := &fmp4.Part{SequenceNumber: uint32(s), Tracks: []*fmp4.PartTrack{
			{ID: 1, BaseTime: uint64(900000 + s*4*1800), Samples: h264Samples(4)},
			{ID: 2, BaseTime: uint64(480000 + s*4*960), Samples: rawSamples(4, 960)},
		}}
		segs = append(segs, marshalParts(p))
	}
	return init, segs
}

func goodTS(nSeg int, tracks []*origin.Track) [][]byte {
	st := &origin.Stream{Container: "ts", Tracks: tracks}
	if err := st.Build(nSeg, 4, 50); err != nil {
		panic(err)
	}
	return st.Segs
}

func tsVA() []*origin.Track {
	return []*origin.Track{{Kind: media.H264, TimeScale: 90000, Params: testParamsH264, Base: 900000, SampleDur: 1800},
		{Kind: media.AAC, TimeScale: 90000, AAC: aacCfg, Base: 900000, SampleDur: 1920}}
}

type swBuf struct{ bytes.Buffer }

// rawTS builds a MPEG-TS segment with arbitrary mediacommon codecs.
func rawTS(codecs []mpegts.Codec, write func(w *mpegts.Writer, tracks []*mpegts.Track)) []byte {
	var tracks []*mpegts.Track
	for _, c := range codecs {
		tracks = append(tracks, &mpegts.Track{Codec: c})
	}
	var buf bytes.Buffer
	w := &mpegts.Writer{W: &buf, Tracks: tracks}
	if err := w.Initialize(); err != nil {
		return []byte("ts-init-error")
	}
	write(w, tracks)
	return buf.Bytes()
}

// c13Cases builds the deterministic catalogue plus seeded random corruptions.
func c13Cases(seed int64, tier string) []*c13Case {
	var cases []*c13Case
	n := 0
	add := func(name string, build func(site *origin.Site, base string) string) {
		site := origin.NewSite()
		base := fmt.Sprintf("http://hostile.example/%d/", n)
		n++
		entry := build(site, base)
		endless := name == "playlist/ll-same-hint-forever" || name == "playlist/ll-parts-always-ready" || name == "playlist/fifty-thousand-segments"
		cases = append(cases, &c13Case{Name: name, Site: site, Entry: entry, Endless: endless, Bare: n%4 == 1})
	}
	single := func(name string, init []byte, segs [][]byte) {
		add(name, func(site *origin.Site, base string) string {
			vodFMP4(site, base+"s.m3u8", init, segs, "x")
			return base + "s.m3u8"
		})
		// the date-time path of the processors (anchoring on the leading track) sees the same content;
		// not for the bulk truncation / corruption families
		if !strings.HasPrefix(name, "truncate/") && !strings.HasPrefix(name, "boxsize/") && !strings.HasPrefix(name, "random/") {
			add(name+"+date-time", func(site *origin.Site, base string) string {
				vodFMP4PDT(site, base+"s.m3u8", init, segs, "x", true)
				return base + "s.m3u8"
			})
		}
	}
	gi, gs := goodFMP4()
	single("fmp4/good", gi, gs)

	// A. codecs gohlslib has no decoder for
	unsupported := map[string]fmp4.Codec{
		"ac3":        &fmp4.CodecAC3{SampleRate: 48000, ChannelCount: 2, Fscod: 0, Bsid: 8, Acmod: 2, BitRateCode: 10},
		"lpcm":       &fmp4.CodecLPCM{BitDepth: 16, SampleRate: 48000, ChannelCount: 2},
		"mjpeg":      &fmp4.CodecMJPEG{Width: 640, Height: 480},
		"mpeg1audio": &fmp4.CodecMPEG1Audio{SampleRate: 48000, ChannelCount: 2},
		"mpeg1video": &fmp4.CodecMPEG1Video{Config: []byte{0, 0, 1, 0xb3, 0x78, 0x04, 0x38, 0x35, 0xff, 0xff, 0xe0, 0x18}},
		"mpeg4video": &fmp4.CodecMPEG4Video{Config: []byte{0, 0, 1, 0xb0, 1, 0, 0, 1, 0xb5, 0x89, 0x13}},
	}
	for _, name := range []string{"ac3", "lpcm", "mjpeg", "mpeg1audio", "mpeg1video", "mpeg4video"} {
		c := unsupported[name]
		ts := uint32(48000)
		if c.IsVideo() {
			ts = 90000
		}
		segFor := func(ids ...int) [][]byte {
			var segs [][]byte
			for s := 0; s < 2; s++ {
				p := &fmp4.Part{SequenceNumber: uint32(s)}
				for _, id := range ids {
					p.Tracks = append(p.Tracks, &fmp4.PartTrack{ID: id, BaseTime: uint64(s * 4000), Samples: rawSamples(4, 1000)})
				}
				segs = append(segs, marshalParts(p))
			}
			return segs
		}
		single("unsupported/"+name+"/alone", marshalInit([]*fmp4.InitTrack{{ID: 1, TimeScale: ts, Codec: c}}), segFor(1))
		{
			init := marshalInit([]*fmp4.InitTrack{h264Init(1), {ID: 2, TimeScale: ts, Codec: c}})
			var segs [][]byte
			for s := 0; s < 2; s++ {
				segs = append(segs, marshalParts(&fmp4.Part{SequenceNumber: uint32(s), Tracks: []*fmp4.PartTrack{
					{ID: 1, BaseTime: uint64(900000 + s*4*1800), Samples: h264Samples(4)},
					{ID: 2, BaseTime: uint64(s * 4000), Samples: rawSamples(4, 1000)}}}))
			}
			single("unsupported/"+name+"/with-h264", init, segs)
		}
		single("unsupported/"+name+"/first-with-aac", marshalInit([]*fmp4.InitTrack{{ID: 1, TimeScale: ts, Codec: c}, aacInit(2)}), segFor(1, 2))
	}

	// B. track ids
	mkSeg := func(tracks ...*fmp4.PartTrack) []byte {
		return marshalParts(&fmp4.Part{SequenceNumber: 1, Tracks: tracks})
	}
	v := func(id int) *fmp4.PartTrack {
		return &fmp4.PartTrack{ID: id, BaseTime: 900000, Samples: h264Samples(4)}
	}
	a := func(id int) *fmp4.PartTrack {
		return &fmp4.PartTrack{ID: id, BaseTime: 480000, Samples: rawSamples(4, 960)}
	}
	single("ids/swapped", gi, [][]byte{mkSeg(a(1), v(2))})
	single("ids/unknown-track", gi, [][]byte{mkSeg(v(1), a(7))})
	single("ids/only-unknown", gi, [][]byte{mkSeg(a(7), a(9))})
	single("ids/unknown-track-in-second-segment", gi, [][]byte{gs[0], mkSeg(v(1), a(2), a(7)), gs[2]})
	single("ids/unknown-track-in-last-segment", gi, [][]byte{gs[0], gs[1], mkSeg(v(1), a(2), a(7))})
	single("ids/unknown-track-first-then-good", gi, [][]byte{mkSeg(a(7), v(1), a(2)), gs[1]})
	single("ids/no-leading-data", gi, [][]byte{mkSeg(a(2))})
	single("ids/duplicate-track", gi, [][]byte{mkSeg(v(1), v(1), a(2))})
	single("ids/init-ids-reversed", marshalInit([]*fmp4.InitTrack{h264Init(2), aacInit(1)}), [][]byte{mkSeg(v(2), a(1))})
	single("ids/init-id-zero", marshalInit([]*fmp4.InitTrack{h264Init(0)}), [][]byte{mkSeg(v(0))})
	{
		var its []*fmp4.InitTrack
		var pts []*fmp4.PartTrack
		for i := 1; i <= 12; i++ {
			its = append(its, aacInit(i))
			pts = append(pts, a(i))
		}
		single("ids/twelve-tracks", marshalInit(its), [][]byte{mkSeg(pts...)})
	}
	single("ids/no-tracks-in-init", marshalInit(nil), [][]byte{mkSeg(v(1))})

	// C. empty things
	single("empty/zero-samples", gi, [][]byte{mkSeg(&fmp4.PartTrack{ID: 1, BaseTime: 900000}, a(2))})
	single("empty/zero-samples-all", gi, [][]byte{mkSeg(&fmp4.PartTrack{ID: 1}, &fmp4.PartTrack{ID: 2})})
	single("empty/no-tracks-in-part", gi, [][]byte{marshalParts(&fmp4.Part{SequenceNumber: 1})})
	single("empty/empty-body", gi, [][]byte{{}})
	single("empty/garbage-body", gi, [][]byte{bytes.Repeat([]byte{0xde, 0xad, 0xbe, 0xef}, 100)})
	single("empty/empty-init", []byte{}, gs)
	single("empty/garbage-init", bytes.Repeat([]byte{1, 2, 3}, 50), gs)
	single("empty/init-is-a-segment", gs[0], gs)
	single("empty/segment-is-the-init", gi, [][]byte{gi})
	single("empty/good-then-garbage", gi, [][]byte{gs[0], []byte("not an mp4 at all"), gs[2]})
	single("empty/good-then-empty", gi, [][]byte{gs[0], {}, gs[2]})

	// D. absurd durations / base times / counts
	mod := func(name string, f func(vt, at *fmp4.PartTrack)) {
		vt, at := v(1), a(2)
		f(vt, at)
		single("absurd/"+name, gi, [][]byte{gs[0], mkSeg(vt, at)})
		single("absurd/"+name+"/first", gi, [][]byte{mkSeg(vt, at), gs[1]})
	}
	mod("zero-durations", func(vt, at *fmp4.PartTrack) {
		for _, s := range vt.Samples {
			s.Duration = 0
		}
		for _, s := range at.Samples {
			s.Duration = 0
		}
	})
	mod("huge-durations", func(vt, at *fmp4.PartTrack) {
		for _, s := range vt.Samples {
			s.Duration = 0xFFFFFFFF
		}
	})
	mod("base-2^63", func(vt, at *fmp4.PartTrack) { vt.BaseTime = 1 << 63 })
	mod("base-max", func(vt, at *fmp4.PartTrack) { vt.BaseTime = ^uint64(0); at.BaseTime = ^uint64(0) })
	mod("audio-base-far-future", func(vt, at *fmp4.PartTrack) { at.BaseTime = 480000 + 48000*3600 })
	mod("video-base-far-future", func(vt, at *fmp4.PartTrack) { vt.BaseTime = 900000 + 90000*3600 })
	mod("base-zero-after-big", func(vt, at *fmp4.PartTrack) { vt.BaseTime = 0; at.BaseTime = 0 })
	mod("pts-offset-min", func(vt, at *fmp4.PartTrack) {
		for _, s := range vt.Samples {
			s.PTSOffset = -2147483648
		}
	})
	mod("pts-offset-max", func(vt, at *fmp4.PartTrack) {
		for _, s := range vt.Samples {
			s.PTSOffset = 2147483647
		}
	})
	mod("many-samples", func(vt, at *fmp4.PartTrack) { at.Samples = rawSamples(20000, 1) })
	mod("empty-payloads", func(vt, at *fmp4.PartTrack) {
		for _, s := range vt.Samples {
			s.Payload = nil
		}
		for _, s := range at.Samples {
			s.Payload = nil
		}
	})
	mod("bad-avcc", func(vt, at *fmp4.PartTrack) {
		for _, s := range vt.Samples {
			s.Payload = []byte{0xff, 0xff, 0xff, 0xff, 1, 2, 3}
		}
	})
	for _, ts := range []uint32{0, 1, 0xFFFFFFFF} {
		init := marshalInit([]*fmp4.InitTrack{{ID: 1, TimeScale: ts, Codec: &fmp4.CodecH264{SPS: testParamsH264.SPS, PPS: testParamsH264.PPS}}, aacInit(2)})
		single(fmt.Sprintf("absurd/timescale-%d", ts), init, gs)
		init2 := marshalInit([]*fmp4.InitTrack{h264Init(1), {ID: 2, TimeScale: ts, Codec: &fmp4.CodecMPEG4Audio{Config: aacCfg}}})
		single(fmt.Sprintf("absurd/audio-timescale-%d", ts), init2, gs)
	}

	// E. truncation at every box boundary of the init and of the first segment
	var ib, sb []box
	walkBoxes(gi, 0, &ib)
	walkBoxes(gs[0], 0, &sb)
	cuts := map[int]bool{}
	for _, b := range ib {
		for _, c := range []int{b.off, b.off + 4, b.off + 8, b.off + b.size - 1} {
			if c > 0 && c < len(gi) && !cuts[c] {
				cuts[c] = true
				single(fmt.Sprintf("truncate/init@%d(%s)", c, b.typ), gi[:c], gs)
			}
		}
	}
	cuts = map[int]bool{}
	for _, b := range sb {
		for _, c := range []int{b.off, b.off + 4, b.off + 8, b.off + b.size - 1} {
			if c > 0 && c < len(gs[0]) && !cuts[c] {
				cuts[c] = true
				single(fmt.Sprintf("truncate/segment@%d(%s)", c, b.typ), gi, [][]byte{gs[0][:c], gs[1]})
				single(fmt.Sprintf("truncate/second-segment@%d(%s)", c, b.typ), gi, [][]byte{gs[0], gs[1][:min(c, len(gs[1]))], gs[2]})
			}
		}
	}
	// box sizes rewritten
	for _, b := range sb {
		for _, nv := range []uint32{0, 1, 7, 0xFFFFFFFF, uint32(b.size + 1), uint32(len(gs[0]) * 2)} {
			m := append([]byte{}, gs[0]...)
			binary.BigEndian.PutUint32(m[b.off:], nv)
			single(fmt.Sprintf("boxsize/%s=%d", b.typ, nv), gi, [][]byte{m, gs[1]})
		}
	}

	// F. mixed containers between renditions
	tsSegs := goodTS(3, tsVA())
	tsAudio := goodTS(3, []*origin.Track{{Kind: media.AAC, TimeScale: 90000, AAC: aacCfg, Base: 900000, SampleDur: 1920}})
	mvText := func(videoPL, audioPL string) string {
		return "#EXTM3U\n#EXT-X-VERSION:6\n#EXT-X-MEDIA:TYPE=AUDIO,GROUP-ID=\"a\",NAME=\"a\",DEFAULT=YES,URI=\"" + audioPL + "\"\n" +
			"#EXT-X-STREAM-INF:BANDWIDTH=1000,CODECS=\"avc1.42c028,mp4a.40.2\",AUDIO=\"a\"\n" + videoPL + "\n"
	}
	vInit := marshalInit([]*fmp4.InitTrack{h264Init(1)})
	var vSegs [][]byte
	for s := 0; s < 3; s++ {
		vSegs = append(vSegs, marshalParts(&fmp4.Part{SequenceNumber: uint32(s), Tracks: []*fmp4.PartTrack{{ID: 1, BaseTime: uint64(900000 + s*4*1800), Samples: h264Samples(4)}}}))
	}
	aInit := marshalInit([]*fmp4.InitTrack{aacInit(1)})
	var aSegs [][]byte
	for s := 0; s < 3; s++ {
		aSegs = append(aSegs, marshalParts(&fmp4.Part{SequenceNumber: uint32(s), Tracks: []*fmp4.PartTrack{{ID: 1, BaseTime: uint64(480000 + s*4*1024), Samples: rawSamples(4, 1024)}}}))
	}
	add("mixed/video-fmp4+audio-ts", func(site *origin.Site, base string) string {
		vodFMP4(site, base+"v.m3u8", vInit, vSegs, "v")
		vodFMP4(site, base+"a.m3u8", nil, tsAudio, "a")
		site.Static[base+"index.m3u8"] = mvText("v.m3u8", "a.m3u8")
		return base + "index.m3u8"
	})
	add("mixed/video-ts+audio-fmp4", func(site *origin.Site, base string) string {
		vodFMP4(site, base+"v.m3u8", nil, goodTS(3, tsVA()[:1]), "v")
		vodFMP4(site, base+"a.m3u8", aInit, aSegs, "a")
		site.Static[base+"index.m3u8"] = mvText("v.m3u8", "a.m3u8")
		return base + "index.m3u8"
	})
	add("mixed/rendition-with-two-tracks", func(site *origin.Site, base string) string {
		vodFMP4(site, base+"v.m3u8", vInit, vSegs, "v")
		vodFMP4(site, base+"a.m3u8", gi, gs, "a")
		site.Static[base+"index.m3u8"] = mvText("v.m3u8", "a.m3u8")
		return base + "index.m3u8"
	})
	add("mixed/rendition-404", func(site *origin.Site, base string) string {
		vodFMP4(site, base+"v.m3u8", vInit, vSegs, "v")
		site.Static[base+"index.m3u8"] = mvText("v.m3u8", "missing.m3u8")
		return base + "index.m3u8"
	})
	add("mixed/rendition-is-multivariant", func(site *origin.Site, base string) string {
		vodFMP4(site, base+"v.m3u8", vInit, vSegs, "v")
		site.Static[base+"index.m3u8"] = mvText("v.m3u8", "index.m3u8")
		return base + "index.m3u8"
	})
	add("mixed/variant-is-multivariant", func(site *origin.Site, base string) string {
		site.Static[base+"index.m3u8"] = "#EXTM3U\n#EXT-X-STREAM-INF:BANDWIDTH=1,CODECS=\"avc1.42c028\"\nindex.m3u8\n"
		return base + "index.m3u8"
	})
	add("mixed/audio-group-missing", func(site *origin.Site, base string) string {
		vodFMP4(site, base+"v.m3u8", vInit, vSegs, "v")
		site.Static[base+"index.m3u8"] = "#EXTM3U\n#EXT-X-STREAM-INF:BANDWIDTH=1,CODECS=\"avc1.42c028\",AUDIO=\"nope\"\nv.m3u8\n"
		return base + "index.m3u8"
	})
	// the leading playlist dies of an unusable track (unsupported codec next to H264, time scale 0,
	// no data of the leading track, garbage) while an audio rendition is already waiting for it
	for _, bad := range []string{"ac3", "mjpeg", "lpcm", "timescale0", "no-leading-data", "garbage-segment", "empty-segment"} {
		bad := bad
		for _, pdt := range []bool{false, true} {
			pdt := pdt
			nm := "mixed/leading-dies-" + bad + "-with-rendition"
			if pdt {
				nm += "+date-time"
			}
			add(nm, func(site *origin.Site, base string) string {
				init := vInit
				segs := vSegs
				switch bad {
				case "ac3", "mjpeg", "lpcm":
					c := unsupported[bad]
					ts := uint32(48000)
					if c.IsVideo() {
						ts = 90000
					}
					init = marshalInit([]*fmp4.InitTrack{h264Init(1), {ID: 2, TimeScale: ts, Codec: c}})
					segs = nil
					for sg := 0; sg < 2; sg++ {
						segs = append(segs, marshalParts(&fmp4.Part{SequenceNumber: uint32(sg), Tracks: []*fmp4.PartTrack{
							{ID: 1, BaseTime: uint64(900000 + sg*4*1800), Samples: h264Samples(4)},
							{ID: 2, BaseTime: uint64(sg * 4000), Samples: rawSamples(4, 1000)}}}))
					}
				case "timescale0":
					it := h264Init(1)
					it.TimeScale = 0
					init = marshalInit([]*fmp4.InitTrack{it})
				case "no-leading-data":
					segs = [][]byte{marshalParts(&fmp4.Part{SequenceNumber: 1, Tracks: []*fmp4.PartTrack{{ID: 9, BaseTime: 0, Samples: rawSamples(4, 1000)}}})}
				case "garbage-segment":
					segs = [][]byte{[]byte("this is not an mp4 file at all, not even close")}
				case "empty-segment":
					segs = [][]byte{{}}
				}
				vodFMP4PDT(site, base+"v.m3u8", init, segs, "v", pdt)
				vodFMP4PDT(site, base+"a.m3u8", aInit, aSegs, "a", pdt)
				site.Static[base+"index.m3u8"] = mvText("v.m3u8", "a.m3u8")
				return base + "index.m3u8"
			})
		}
	}
	add("mixed/unsupported-codecs-only", func(site *origin.Site, base string) string {
		vodFMP4(site, base+"v.m3u8", vInit, vSegs, "v")
		site.Static[base+"index.m3u8"] = "#EXTM3U\n#EXT-X-STREAM-INF:BANDWIDTH=1,CODECS=\"mp4v.20.9,ac-3\"\nv.m3u8\n"
		return base + "index.m3u8"
	})

	// G. MPEG-TS
	tsSingle := func(name string, segs [][]byte) {
		// twice: once observed through every callback, once with a client that sets none of the
		// optional ones (decode errors then go to the default installed by Start)
		for _, bare := range []bool{false, true} {
			nm := name
			if bare {
				nm += "+bare-client"
			}
			add(nm, func(site *origin.Site, base string) string {
				vodFMP4(site, base+"s.m3u8", nil, segs, "t")
				return base + "s.m3u8"
			})
			cases[len(cases)-1].Bare = bare
		}
	}
	tsSingle("ts/good", tsSegs)
	tsSingle("ts/garbage", [][]byte{bytes.Repeat([]byte{0x47, 0x1f, 0xff, 0x10}, 47*4)})
	tsSingle("ts/empty", [][]byte{{}})
	tsSingle("ts/no-sync", [][]byte{bytes.Repeat([]byte{0x00}, 188*5)})
	tsSingle("ts/truncated-mid-packet", [][]byte{tsSegs[0][:len(tsSegs[0])-100], tsSegs[1]})
	tsSingle("ts/no-tables", [][]byte{tsSegs[0][376:], tsSegs[1]})
	tsSingle("ts/good-then-garbage", [][]byte{tsSegs[0], []byte("garbage"), tsSegs[2]})
	tsSingle("ts/good-then-empty", [][]byte{tsSegs[0], {}, tsSegs[2]})
	tsSingle("ts/second-segment-other-stream", [][]byte{tsSegs[0], tsAudio[1], tsSegs[2]})
	tsSingle("ts/fmp4-in-ts-playlist", [][]byte{gs[0]})
	for c := 188; c < len(tsSegs[0]); c += 188 * 3 {
		tsSingle(fmt.Sprintf("ts/truncate@%d", c+50), [][]byte{tsSegs[0][:c+50], tsSegs[1]})
	}
	tsSingle("ts/h265-only", [][]byte{rawTS([]mpegts.Codec{&mpegts.CodecH265{}}, func(w *mpegts.Writer, t []*mpegts.Track) {
		w.WriteH265(t[0], 90000, 90000, [][]byte{{0x40, 1, 2}, {0x42, 1, 2}, {0x44, 1}, {19 << 1, 1, 3, 4}})
	})})
	tsSingle("ts/opus-only", [][]byte{rawTS([]mpegts.Codec{&mpegts.CodecOpus{ChannelCount: 2}}, func(w *mpegts.Writer, t []*mpegts.Track) {
		w.WriteOpus(t[0], 90000, [][]byte{{0xf8, 1, 2, 3}})
	})})
	tsSingle("ts/ac3-only", [][]byte{rawTS([]mpegts.Codec{&mpegts.CodecAC3{SampleRate: 48000, ChannelCount: 2}}, func(w *mpegts.Writer, t []*mpegts.Track) {
		w.WriteAC3(t[0], 90000, []byte{0x0b, 0x77, 1, 2, 3, 4, 5, 6})
	})})
	tsSingle("ts/h264+opus", [][]byte{rawTS([]mpegts.Codec{&mpegts.CodecH264{}, &mpegts.CodecOpus{ChannelCount: 2}}, func(w *mpegts.Writer, t []*mpegts.Track) {
		w.WriteH264(t[0], 90000, 90000, [][]byte{testParamsH264.SPS, testParamsH264.PPS, {0x65, 1, 2, 3}})
		w.WriteOpus(t[1], 90000, [][]byte{{0xf8, 1, 2, 3}})
		w.WriteH264(t[0], 91800, 91800, [][]byte{{0x41, 1, 2, 3}})
	})})
	tsSingle("ts/opus-first+h264", [][]byte{rawTS([]mpegts.Codec{&mpegts.CodecOpus{ChannelCount: 2}, &mpegts.CodecH264{}}, func(w *mpegts.Writer, t []*mpegts.Track) {
		w.WriteOpus(t[0], 90000, [][]byte{{0xf8, 1, 2, 3}})
		w.WriteH264(t[1], 90000, 90000, [][]byte{testParamsH264.SPS, testParamsH264.PPS, {0x65, 1, 2, 3}})
	})})
	tsSingle("ts/audio-only-then-video-segment", [][]byte{tsAudio[0], tsSegs[1]})
	{
		var cs []mpegts.Codec
		for i := 0; i < 12; i++ {
			cs = append(cs, &mpegts.CodecMPEG4Audio{Config: aacCfg})
		}
		tsSingle("ts/twelve-audio-tracks", [][]byte{rawTS(cs, func(w *mpegts.Writer, t []*mpegts.Track) {
			for i := range t {
				w.WriteMPEG4Audio(t[i], 90000, [][]byte{{1, 2, 3, 4}})
			}
		})})
	}
	tsSingle("ts/time-jump-1h", [][]byte{rawTS([]mpegts.Codec{&mpegts.CodecH264{}}, func(w *mpegts.Writer, t []*mpegts.Track) {
		w.WriteH264(t[0], 90000, 90000, [][]byte{testParamsH264.SPS, testParamsH264.PPS, {0x65, 1, 2, 3}})
		w.WriteH264(t[0], 90000+90000*3600, 90000+90000*3600, [][]byte{{0x41, 1, 2, 3}})
		w.WriteH264(t[0], 91800, 91800, [][]byte{{0x41, 1, 2, 3}})
	})})
	tsSingle("ts/time-backwards", [][]byte{rawTS([]mpegts.Codec{&mpegts.CodecH264{}}, func(w *mpegts.Writer, t []*mpegts.Track) {
		w.WriteH264(t[0], 900000, 900000, [][]byte{testParamsH264.SPS, testParamsH264.PPS, {0x65, 1, 2, 3}})
		w.WriteH264(t[0], 1000, 1000, [][]byte{{0x41, 1, 2, 3}})
	})})

	// H. playlist level
	add("playlist/segments-404", func(site *origin.Site, base string) string {
		vodFMP4(site, base+"s.m3u8", gi, gs, "x")
		delete(site.Files, origin.Resolve(base+"s.m3u8", "x_seg1.bin"))
		return base + "s.m3u8"
	})
	add("playlist/init-404", func(site *origin.Site, base string) string {
		vodFMP4(site, base+"s.m3u8", gi, gs, "x")
		delete(site.Files, origin.Resolve(base+"s.m3u8", "x_init.mp4"))
		return base + "s.m3u8"
	})
	add("playlist/segment-is-the-playlist", func(site *origin.Site, base string) string {
		site.Static[base+"s.m3u8"] = "#EXTM3U\n#EXT-X-TARGETDURATION:1\n#EXT-X-PLAYLIST-TYPE:VOD\n#EXTINF:1,\ns.m3u8\n#EXTINF:1,\ns.m3u8\n#EXT-X-ENDLIST\n"
		return base + "s.m3u8"
	})
	add("playlist/fifty-thousand-segments", func(site *origin.Site, base string) string {
		var sb strings.Builder
		sb.WriteString("#EXTM3U\n#EXT-X-TARGETDURATION:1\n#EXT-X-PLAYLIST-TYPE:VOD\n")
		for i := 0; i < 50000; i++ {
			sb.WriteString("#EXTINF:0.01,\nseg.ts\n")
		}
		sb.WriteString("#EXT-X-ENDLIST\n")
		site.Static[base+"s.m3u8"] = sb.String()
		site.Files[base+"seg.ts"] = tsSegs[0]
		return base + "s.m3u8"
	})
	add("playlist/live-never-advances", func(site *origin.Site, base string) string {
		site.Static[base+"s.m3u8"] = "#EXTM3U\n#EXT-X-TARGETDURATION:1\n#EXTINF:0.08,\na.ts\n#EXTINF:0.08,\nb.ts\n#EXTINF:0.08,\nc.ts\n"
		site.Files[base+"a.ts"], site.Files[base+"b.ts"], site.Files[base+"c.ts"] = tsSegs[0], tsSegs[1], tsSegs[2]
		return base + "s.m3u8"
	})
	add("playlist/ll-hint-404", func(site *origin.Site, base string) string {
		site.Static[base+"s.m3u8"] = "#EXTM3U\n#EXT-X-VERSION:9\n#EXT-X-TARGETDURATION:1\n#EXT-X-SERVER-CONTROL:CAN-BLOCK-RELOAD=YES,PART-HOLD-BACK=1\n#EXT-X-PART-INF:PART-TARGET=0.3\n" +
			"#EXT-X-MAP:URI=\"init.mp4\"\n#EXTINF:0.08,\nx.mp4\n#EXT-X-PRELOAD-HINT:TYPE=PART,URI=\"nope.mp4\"\n"
		site.Files[base+"init.mp4"] = gi
		return base + "s.m3u8"
	})
	add("playlist/ll-hint-garbage-forever", func(site *origin.Site, base string) string {
		site.Static[base+"s.m3u8"] = "#EXTM3U\n#EXT-X-VERSION:9\n#EXT-X-TARGETDURATION:1\n#EXT-X-SERVER-CONTROL:CAN-BLOCK-RELOAD=YES,PART-HOLD-BACK=1\n#EXT-X-PART-INF:PART-TARGET=0.3\n" +
			"#EXT-X-MAP:URI=\"init.mp4\"\n#EXTINF:0.08,\nx.mp4\n#EXT-X-PRELOAD-HINT:TYPE=PART,URI=\"hint.mp4\"\n"
		site.Files[base+"init.mp4"] = gi
		site.Files[base+"hint.mp4"] = []byte("garbage")
		return base + "s.m3u8"
	})
	// byte-range tags in every inconsistent combination over segments of one resource (with and
	// without offset, missing on the previous segment, beyond the end of the file)
	{
		all := append(append(append([]byte{}, tsSegs[0]...), tsSegs[1]...), tsSegs[2]...)
		l0, l1, l2 := len(tsSegs[0]), len(tsSegs[1]), len(tsSegs[2])
		forms := map[string][3]string{
			"none-then-length":         {"", fmt.Sprint(l1), fmt.Sprint(l2)},
			"length-only-first":        {fmt.Sprint(l0), fmt.Sprint(l1), fmt.Sprint(l2)},
			"offset-none-length":       {fmt.Sprintf("%d@0", l0), "", fmt.Sprint(l2)},
			"offset-length-none":       {fmt.Sprintf("%d@0", l0), fmt.Sprint(l1), ""},
			"beyond-the-end":           {fmt.Sprintf("%d@0", l0), fmt.Sprintf("%d@%d", l1, len(all)+10), fmt.Sprintf("%d@%d", l2, l0)},
			"zero-length":              {"0@0", fmt.Sprint(l1), "0"},
			"huge":                     {"18446744073709551615@0", "18446744073709551615", "1@18446744073709551615"},
			"other-uri-in-between":     {fmt.Sprintf("%d@0", l0), "OTHER", fmt.Sprint(l2)},
			"all-offsets-out-of-order": {fmt.Sprintf("%d@%d", l2, l0+l1), fmt.Sprintf("%d@0", l0), fmt.Sprintf("%d@%d", l1, l0)},
		}
		names := make([]string, 0, len(forms))
		for k := range forms {
			names = append(names, k)
		}
		sort.Strings(names)
		for _, k := range names {
			f := forms[k]
			for _, live := range []bool{false, true} {
				k, f, live := k, f, live
				nm := "playlist/byterange-" + k
				if live {
					nm += "-live"
				}
				add(nm, func(site *origin.Site, base string) string {
					var sb strings.Builder
					sb.WriteString("#EXTM3U\n#EXT-X-VERSION:4\n#EXT-X-TARGETDURATION:1\n")
					if !live {
						sb.WriteString("#EXT-X-PLAYLIST-TYPE:VOD\n")
					}
					for i := 0; i < 3; i++ {
						sb.WriteString("#EXTINF:0.08,\n")
						uri := "all.ts"
						if f[i] == "OTHER" {
							uri = "other.ts"
						} else if f[i] != "" {
							sb.WriteString("#EXT-X-BYTERANGE:" + f[i] + "\n")
						}
						sb.WriteString(uri + "\n")
					}
					if !live {
						sb.WriteString("#EXT-X-ENDLIST\n")
					}
					site.Static[base+"s.m3u8"] = sb.String()
					site.Files[base+"all.ts"] = all
					site.Files[base+"other.ts"] = tsSegs[1]
					return base + "s.m3u8"
				})
			}
		}
	}

	// Low-Latency playlists that stop being Low-Latency on a later reload
	for _, mode := range []string{"hint-disappears", "endlist-without-hint", "server-control-disappears", "becomes-multivariant", "reload-404", "reload-garbage"} {
		mode := mode
		for _, after := range []int{1, 2} {
			after := after
			add(fmt.Sprintf("playlist/ll-%s-after-%d", mode, after), func(site *origin.Site, base string) string {
				plURL := base + "s.m3u8"
				site.Files[base+"init.mp4"] = vInit
				site.Kinds[base+"init.mp4"] = "init"
				site.Files[base+"seg0.mp4"] = vSegs[0]
				for k := 0; k < 4; k++ {
					u := fmt.Sprintf("h%d.mp4", k)
					site.Files[base+u] = marshalParts(&fmp4.Part{SequenceNumber: uint32(k), Tracks: []*fmp4.PartTrack{{ID: 1, BaseTime: uint64(900000 + k*4*1800), Samples: h264Samples(4)}}})
					site.Kinds[base+u] = "part"
				}
				head := "#EXTM3U\n#EXT-X-VERSION:9\n#EXT-X-TARGETDURATION:1\n"
				sc := "#EXT-X-SERVER-CONTROL:CAN-BLOCK-RELOAD=YES,PART-HOLD-BACK=1\n#EXT-X-PART-INF:PART-TARGET=0.3\n"
				body := "#EXT-X-MAP:URI=\"init.mp4\"\n#EXTINF:0.08,\nseg0.mp4\n"
				var texts []string
				for k := 0; k < after; k++ {
					parts := ""
					for j := 0; j < k; j++ {
						parts += fmt.Sprintf("#EXT-X-PART:DURATION=0.08,URI=\"h%d.mp4\"\n", j)
					}
					texts = append(texts, head+sc+body+parts+fmt.Sprintf("#EXT-X-PRELOAD-HINT:TYPE=PART,URI=\"h%d.mp4\"\n", k))
				}
				parts := ""
				for j := 0; j < after; j++ {
					parts += fmt.Sprintf("#EXT-X-PART:DURATION=0.08,URI=\"h%d.mp4\"\n", j)
				}
				switch mode {
				case "hint-disappears":
					texts = append(texts, head+sc+body+parts)
				case "endlist-without-hint":
					texts = append(texts, head+sc+body+parts+"#EXT-X-ENDLIST\n")
				case "server-control-disappears":
					texts = append(texts, head+body+fmt.Sprintf("#EXT-X-PRELOAD-HINT:TYPE=PART,URI=\"h%d.mp4\"\n", after))
					texts = append(texts, head+body+parts+"#EXT-X-ENDLIST\n") // finite: whatever the client made of it, the stream ends
				case "becomes-multivariant":
					texts = append(texts, "#EXTM3U\n#EXT-X-STREAM-INF:BANDWIDTH=1000,CODECS=\"avc1.42c028\"\ns.m3u8\n")
				case "reload-404":
					texts = append(texts, "\x00404")
				case "reload-garbage":
					texts = append(texts, "#EXTM3U\n#EXT-X-TARGETDURATION:\n#EXTINF\n\xff\xfe")
				}
				site.Sequences[plURL] = texts
				return plURL
			})
		}
	}
	add("playlist/ll-same-hint-forever", func(site *origin.Site, base string) string {
		// the same valid part hinted again and again: the client may keep going but must stay
		// closable and must not spin faster than the media it delivers
		site.Static[base+"s.m3u8"] = "#EXTM3U\n#EXT-X-VERSION:9\n#EXT-X-TARGETDURATION:1\n#EXT-X-SERVER-CONTROL:CAN-BLOCK-RELOAD=YES,PART-HOLD-BACK=1\n#EXT-X-PART-INF:PART-TARGET=0.3\n" +
			"#EXT-X-MAP:URI=\"init.mp4\"\n#EXTINF:0.08,\nx.mp4\n#EXT-X-PRELOAD-HINT:TYPE=PART,URI=\"hint.mp4\"\n"
		site.Files[base+"init.mp4"] = gi
		site.Files[base+"hint.mp4"] = gs[0]
		return base + "s.m3u8"
	})
	add("playlist/ll-parts-always-ready", func(site *origin.Site, base string) string {
		// every hinted part is available at once and carries advancing timestamps (a recording
		// served as Low-Latency): the client must not fetch thousands of parts ahead of playback
		plURL := base + "s.m3u8"
		pl := &origin.Playlist{URL: plURL, TargetDuration: 1, Version: 9, CanBlockReload: true, PartTargetNS: 80e6, MapURI: "init.mp4"}
		site.Files[base+"init.mp4"] = vInit
		site.Kinds[base+"init.mp4"] = "init"
		site.Files[base+"seg0.mp4"] = vSegs[0]
		pl.Segs = []origin.Seg{{URI: "seg0.mp4", DurNS: 80e6}}
		for k := 0; k < 3000; k++ {
			pl.History = append(pl.History, origin.Window{First: 0, Count: 1})
			pl.LLParts = append(pl.LLParts, nil)
			u := fmt.Sprintf("h%d.mp4", k)
			pl.LLHint = append(pl.LLHint, u)
			site.Files[base+u] = marshalParts(&fmp4.Part{SequenceNumber: uint32(k), Tracks: []*fmp4.PartTrack{{ID: 1, BaseTime: uint64(900000 + k*4*1800), Samples: h264Samples(4)}}})
			site.Kinds[base+u] = "part"
		}
		site.Playlists[plURL] = pl
		return plURL
	})
	add("playlist/map-empty-uri", func(site *origin.Site, base string) string {
		site.Static[base+"s.m3u8"] = "#EXTM3U\n#EXT-X-TARGETDURATION:1\n#EXT-X-PLAYLIST-TYPE:VOD\n#EXT-X-MAP:URI=\"\"\n#EXTINF:1,\nx.mp4\n#EXT-X-ENDLIST\n"
		site.Files[base+"x.mp4"] = gs[0]
		return base + "s.m3u8"
	})
	add("playlist/uri-unparsable", func(site *origin.Site, base string) string {
		site.Static[base+"s.m3u8"] = "#EXTM3U\n#EXT-X-TARGETDURATION:1\n#EXT-X-PLAYLIST-TYPE:VOD\n#EXTINF:1,\nhttp://[::1\n#EXT-X-ENDLIST\n"
		return base + "s.m3u8"
	})
	add("playlist/byterange-huge", func(site *origin.Site, base string) string {
		site.Static[base+"s.m3u8"] = "#EXTM3U\n#EXT-X-TARGETDURATION:1\n#EXT-X-PLAYLIST-TYPE:VOD\n#EXTINF:1,\n#EXT-X-BYTERANGE:18446744073709551615@18446744073709551615\nx.ts\n#EXT-X-ENDLIST\n"
		site.Files[base+"x.ts"] = tsSegs[0]
		return base + "s.m3u8"
	})
	add("playlist/empty", func(site *origin.Site, base string) string {
		site.Static[base+"s.m3u8"] = ""
		return base + "s.m3u8"
	})
	add("playlist/entry-404", func(site *origin.Site, base string) string { return base + "missing.m3u8" })

	// I. seeded random corruption of valid payloads
	rng := rand.New(rand.NewSource(seed*7 + 3))
	nRand := 150
	if tier == "thorough" {
		nRand = 4000
	}
	corrupt := func(b []byte) []byte {
		m := append([]byte{}, b...)
		for k := 0; k < 1+rng.Intn(6); k++ {
			if len(m) == 0 {
				break
			}
			switch rng.Intn(4) {
			case 0:
				m[rng.Intn(len(m))] ^= byte(1 << uint(rng.Intn(8)))
			case 1:
				m[rng.Intn(len(m))] = byte(rng.Intn(256))
			case 2:
				i := rng.Intn(len(m))
				j := i + rng.Intn(min(16, len(m)-i))
				m = append(m[:i], m[j:]...)
			default:
				i := rng.Intn(len(m))
				m = append(m[:i], append([]byte{0xff, 0xff, 0xff, 0xff}, m[i:]...)...)
			}
		}
		return m
	}
	for i := 0; i < nRand; i++ {
		switch i % 4 {
		case 0:
			single(fmt.Sprintf("random/init#%d", i), corrupt(gi), gs)
		case 1:
			single(fmt.Sprintf("random/first-segment#%d", i), gi, [][]byte{corrupt(gs[0]), gs[1]})
		case 2:
			single(fmt.Sprintf("random/later-segment#%d", i), gi, [][]byte{gs[0], corrupt(gs[1]), gs[2]})
		default:
			tsSingle(fmt.Sprintf("random/ts#%d", i), [][]byte{corrupt(tsSegs[0]), tsSegs[1]})
		}
	}
	return cases
}

type c13Out struct {
	StillBusy  bool     `json:"still_busy,omitempty"`
	Name       string   `json:"name"`
	Wait       string   `json:"wait"`
	Self       bool     `json:"ended_by_itself"`
	Requests   int      `json:"requests"`
	Delivered  int      `json:"delivered"`
	DecodeErrs int      `json:"decode_errors"`
	Tracks     int      `json:"tracks"`
	Viol       []string `json:"viol"`
}

func runC13Case(c *c13Case) *c13Out {
	out := &c13Out{Name: c.Name}
	srv := &origin.Server{H: c.Site.Handler()}
	// every fourth case with a client that sets no optional callback (the defaults of Start run)
	run := clirun.NewOpts(c.Entry, srv.Client(), c.Bare)
	if err := run.C.Start(); err != nil {
		out.Wait = "start-error: " + err.Error()
		out.Self = true
		return out
	}
	if run.WaitResult(700 * time.Millisecond) {
		out.Self = true
	} else {
		if !c.Endless {
			// a finite origin (a few tenths of a second of media at most): the client must either
			// end or keep making progress; watch requests and deliveries for a while
			last := srv.Count() + run.Delivered()
			idle := 0
			// (the client may legitimately sleep up to 10 s to pace a unit whose DTS is ahead of the clock)
			for i := 0; i < 400 && !out.Self; i++ {
				if run.WaitResult(100 * time.Millisecond) {
					out.Self = true
					break
				}
				if cur := srv.Count() + run.Delivered(); cur != last {
					last, idle = cur, 0
				} else {
					idle++
				}
				if idle >= 125 {
					break
				}
			}
			if !out.Self && idle < 125 {
				// still exchanging requests and units after 40 s: not a wedge; bounded by the
				// request-count criterion below
				out.StillBusy = true
			}
			if !out.Self && idle >= 125 {
				out.Viol = append(out.Viol, fmt.Sprintf("C13/wedged|%s: the stream is finite but the client neither ended nor made progress for 12 s (requests %d, delivered %d, decode errors %d)", c.Name, srv.Count(), run.Delivered(), len(run.DecodeErrs)))
			}
		}
		if out.Self {
			goto ended
		}
		if !run.CloseWithin(8 * time.Second) {
			out.Viol = append(out.Viol, fmt.Sprintf("C13/close-ignored|%s: Close() did not return within 8 s (requests %d)", c.Name, srv.Count()))
			return out
		}
		if !run.WaitResult(8 * time.Second) {
			out.Viol = append(out.Viol, fmt.Sprintf("C13/close-ignored|%s: the client neither ended nor honoured Close (requests %d)", c.Name, srv.Count()))
			return out
		}
	}
ended:
	out.Wait = fmt.Sprint(run.WaitErr)
	out.Requests = srv.Count()
	out.Delivered = run.Delivered()
	out.DecodeErrs = len(run.DecodeErrs)
	out.Tracks = len(run.Tracks)
	if run.WaitErr == nil {
		out.Viol = append(out.Viol, fmt.Sprintf("C13/nil-error|%s: Wait() yielded nil", c.Name))
	}
	// busy loop: the whole catalogue needs a handful of requests; anything beyond the bound
	// within the 0.7 s window means the client is spinning
	// (a client that delivers what a hostile server keeps sending is working, not spinning:
	// only requests that are not matched by delivered units count)
	bound := 400
	if out.Requests > bound && out.Delivered < out.Requests/2 {
		out.Viol = append(out.Viol, fmt.Sprintf("C13/busy-loop|%s: %d requests in 0.7 s but only %d units delivered (bound %d requests)", c.Name, out.Requests, out.Delivered, bound))
	}
	if errors.Is(run.WaitErr, gohlslib.ErrClientEOS) && strings.HasPrefix(c.Name, "empty/garbage") {
		// fine: skipped through OnDecodeError
	}
	if after, last := run.CallbackAfter(run.WaitStamp); after {
		out.Viol = append(out.Viol, fmt.Sprintf("C13/callback-after-end|%s: callback %s after Wait() yielded", c.Name, last))
	}
	return out
}

// child mode: vmon c13-child <seed> <tier> <from> <to>
func c13Child(args []string) int {
	seed, _ := strconv.ParseInt(args[0], 10, 64)
	tier := args[1]
	from, _ := strconv.Atoi(args[2])
	to, _ := strconv.Atoi(args[3])
	cases := c13Cases(seed, tier)
	w := bufio.NewWriter(os.Stdout)
	for i := from; i < to && i < len(cases); i++ {
		fmt.Fprintf(w, "RUN %d %s\n", i, cases[i].Name)
		w.Flush()
		o := runC13Case(cases[i])
		b, _ := json.Marshal(o)
		fmt.Fprintf(w, "END %d %s\n", i, b)
		w.Flush()
	}
	leak := clirun.CensusSettled(3 * time.Second)
	b, _ := json.Marshal(leak)
	fmt.Fprintf(w, "CENSUS %s\n", b)
	w.Flush()
	return 0
}

func checkC13(tier string, seed int64) int {
	rep := ev.NewReporter("C13")
	cases := c13Cases(seed, tier)
	obs := map[string]int{}
	sigs := map[string]bool{}
	var samples []any
	self, _ := os.Executable()
	batch := 40
	type job struct{ from, to int }
	var jobs []job
	for s := 0; s < len(cases); s += batch {
		jobs = append(jobs, job{s, min(s+batch, len(cases))})
	}
	type res struct {
		outs    []*c13Out
		crashed int // index of the crashing case, -1
		stderr  string
		census  []string
		from    int
		to      int
	}
	results := make(chan res)
	sem := make(chan struct{}, 12)
	runJob := func(j job) {
		sem <- struct{}{}
		defer func() { <-sem }()
		from := j.from
		r := res{crashed: -1, from: j.from, to: j.to}
		for from < j.to {
			cmd := exec.Command(self, "c13-child", fmt.Sprint(seed), tier, fmt.Sprint(from), fmt.Sprint(j.to))
			var so, se bytes.Buffer
			cmd.Stdout, cmd.Stderr = &so, &se
			done := make(chan error, 1)
			go func() { done <- cmd.Run() }()
			var err error
			select {
			case err = <-done:
			case <-time.After(6 * time.Minute):
				cmd.Process.Kill()
				err = fmt.Errorf("child timeout")
			}
			last := -1
			ended := map[int]bool{}
			for _, l := range strings.Split(so.String(), "\n") {
				switch {
				case strings.HasPrefix(l, "RUN "):
					fmt.Sscanf(l, "RUN %d", &last)
				case strings.HasPrefix(l, "END "):
					var idx int
					fmt.Sscanf(l, "END %d", &idx)
					ended[idx] = true
					js := l[strings.Index(l[4:], " ")+5:]
					var o c13Out
					if json.Unmarshal([]byte(js), &o) == nil {
						r.outs = append(r.outs, &o)
					}
				case strings.HasPrefix(l, "CENSUS "):
					json.Unmarshal([]byte(l[7:]), &r.census)
				}
			}
			if err == nil {
				break
			}
			// the child died: case `last` is the culprit; continue after it
			r.crashed = last
			r.stderr = se.String()
			o := &c13Out{Name: "?"}
			if last >= 0 && last < len(cases) {
				o.Name = cases[last].Name
			}
			msg := firstLines(grepLines(r.stderr, "panic:", "fatal error:", "goroutine ", "gohlslib/v2."), 6)
			o.Viol = []string{fmt.Sprintf("C13/crash/%s|%s: the process died: %s", crashKey(r.stderr), o.Name, msg)}
			r.outs = append(r.outs, o)
			if last < 0 {
				break
			}
			from = last + 1
		}
		results <- r
	}
	for _, j := range jobs {
		go runJob(j)
	}
	for range jobs {
		r := <-results
		for _, o := range r.outs {
			obs["cases"]++
			cat := o.Name
			if i := strings.IndexByte(cat, '/'); i >= 0 {
				cat = cat[:i]
			}
			obs["category."+cat]++
			if o.Self {
				obs["ended_by_itself"]++
			} else {
				obs["ended_by_close"]++
			}
			if o.DecodeErrs > 0 {
				obs["reported_through_OnDecodeError"]++
			}
			if o.Delivered > 0 {
				obs["delivered_something"]++
			}
			obs["requests"] += o.Requests
			sigs[o.Name] = true
			if len(samples) < 6 && (o.DecodeErrs > 0 || strings.HasPrefix(o.Name, "unsupported/")) {
				samples = append(samples, o)
			}
			for _, v := range o.Viol {
				k, m := splitKM(v)
				rep.Report(k, m, map[string]any{"property": "C13", "seed": seed, "tier": tier, "case": o.Name})
			}
		}
		if len(r.census) > 0 {
			rep.Report("C13/leak/"+leakKey(r.census), fmt.Sprintf("batch %d..%d: %d client goroutine(s) alive after every client ended: %s", r.from, r.to, len(r.census), strings.Join(r.census, " ;; ")),
				map[string]any{"property": "C13", "seed": seed, "tier": tier, "batch_from": r.from, "batch_to": r.to})
		} else {
			obs["batches_census_clean"]++
		}
	}
	// (a) native fuzzing of playlist bytes through a whole client
	fuzzN := 4000
	if tier == "thorough" {
		fuzzN = 150000
	}
	execs, failFile, fout := runGoFuzz("./internal/clifuzz", "FuzzClientPlaylist", fuzzN)
	obs["fuzz_execs"] = execs
	if failFile != "" {
		rep.Report("C13/fuzz", fmt.Sprintf("go test -fuzz=FuzzClientPlaylist failed: %s", firstLines(fout, 8)), map[string]any{"property": "C13", "fuzz_input": failFile})
	} else if execs == 0 {
		fmt.Printf("INCONCLUSIVE property=C13 fuzz target did not run: %s\n", firstLines(fout, 4))
	}
	if len(samples) == 0 {
		samples = append(samples, "none")
	}
	e := &ev.Evidence{
		PropertyID: "C13", Tier: tier, Seed: seed, Level: "exploration",
		Coverage: map[string]any{
			"evaluations": obs["cases"] + execs, "distinct_nontrivial": len(sigs),
			"rule":               "catalogue of hostile origins run in child processes (a crash is attributed to the case logged last): every mediacommon fMP4 codec gohlslib has no decoder for (alone / next to H264 / as first track), track-id permutations, missing / extra / duplicate / 12 tracks, empty trun / traf / bodies, absurd durations, base times, timescales and counts, truncation at every box boundary of an init and a segment, rewritten box sizes, mixed containers between renditions, MPEG-TS with unsupported codecs / no tables / garbage / truncation / time jumps, playlist-level traps (404s, self reference, 50 000 segments, never-advancing live, LL hints), plus seeded random corruption; and go test -fuzz of raw playlist bytes through a whole client. Verdict per case: no crash, ends by itself or on Close within the watchdog, bounded request count, no callback after the end, census empty per child",
			"samples":            samples,
			"observed":           obs,
			"known_findings_hit": rep.KnownHits(),
		},
		Assumptions: []string{
			"busy loop = more than 400 requests within the 0.7 s a case is allowed to run before it is closed, not matched by delivered units (requests/2)",
		},
		WallS: rep.Elapsed(), Violations: rep.NewViolations(),
	}
	e.Write()
	fmt.Printf("C13: %d cases (%d ended by themselves, %d by Close), fuzz execs %d, %d new violations, %d known findings, %.1fs\n",
		obs["cases"], obs["ended_by_itself"], obs["ended_by_close"], execs, rep.NewViolations(), len(rep.KnownHits()), rep.Elapsed())
	if rep.NewViolations() > 0 {
		return 1
	}
	return 0
}

func grepLines(s string, needles ...string) string {
	var out []string
	for _, l := range strings.Split(s, "\n") {
		for _, n := range needles {
			if strings.Contains(l, n) {
				out = append(out, strings.TrimSpace(l))
				break
			}
		}
	}
	return strings.Join(out, "\n")
}

func crashKey(stderr string) string {
	for _, l := range strings.Split(stderr, "\n") {
		if strings.HasPrefix(l, "panic:") || strings.HasPrefix(l, "fatal error:") {
			l = strings.Join(strings.Fields(l), "-")
			l = strings.NewReplacer("/", "_", ":", "").Replace(l)
			if len(l) > 60 {
				l = l[:60]
			}
			// add the innermost gohlslib frame (function name only)
			for _, f := range strings.Split(stderr, "\n") {
				if strings.Contains(f, "gohlslib/v2.") && !strings.Contains(f, "created by") {
					f = f[strings.Index(f, "gohlslib/v2.")+len("gohlslib/v2."):]
					// drop the argument list
					if i := strings.LastIndexByte(f, '('); i > 0 && strings.HasSuffix(strings.TrimSpace(f), ")") {
						f = f[:i]
					}
					return l + "@" + strings.NewReplacer("(", "", ")", "", "*", "", " ", "").Replace(f)
				}
			}
			return l
		}
	}
	return "unknown"
}

func init() {
	checks["C13"] = checkC13
	replayers["C13"] = func(path string) int {
		b, _ := os.ReadFile(path)
		var doc struct {
			Replay struct {
				Seed int64  `json:"seed"`
				Tier string `json:"tier"`
				Case string `json:"case"`
			} `json:"replay"`
		}
		if err := jsonUnmarshal(b, &doc); err != nil || doc.Replay.Case == "" {
			fmt.Println(string(b))
			return 0
		}
		for _, c := range c13Cases(doc.Replay.Seed, doc.Replay.Tier) {
			if c.Name == doc.Replay.Case {
				o := runC13Case(c)
				js, _ := json.MarshalIndent(o, "", " ")
				fmt.Println(string(js))
				if len(o.Viol) > 0 {
					return 1
				}
				fmt.Println("held on this case")
				return 0
			}
		}
		fmt.Println("case not found")
		return 2
	}
}
