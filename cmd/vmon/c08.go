package main

import (
	"bytes"
	"crypto/sha256"
	"fmt"
	"github.com/bluenviron/gohlslib/v2/pkg/codecs"
	"github.com/bluenviron/mediacommon/v2/pkg/formats/fmp4"
	"math/rand"
	"os"
	"path/filepath"
	"runtime"
	"sort"
	"strconv"
	"strings"
	"sync"
	"sync/atomic"
	"time"
	"verif/internal/clirun"

	"verif/internal/ev"
	"verif/internal/hx"
	"verif/internal/m3u8x"
	"verif/internal/media"
	"verif/internal/muxrun"
	"verif/internal/oracle"
	"verif/internal/racelog"
)

// C08 — one writer + concurrent readers under the race detector.

const (
	phIdle = iota
	phWrite
	phUnlocked // between mutex release and Broadcast of a rotation
	phClosing
	phClosed
)

var phaseNames = []string{"idle", "in-write", "rotation-unlocked", "closing", "closed"}

type c08Result struct {
	c06viol []string
	viol    []string
	obs     map[string]int
	cells   map[string]int
	sig     string
}

func runC08Case(seed int64, idx int, tier string) *c08Result {
	res := &c08Result{obs: map[string]int{}, cells: map[string]int{}}
	var vmu sync.Mutex
	// set once a Write failed inside a rotation that was made to fail (see the writer below)
	var failedRotation atomic.Bool
	fail := func(key, f string, a ...any) {
		if failedRotation.Load() && (foldedAfterFailedRotation[key] || strings.HasPrefix(key, "monotone/")) {
			// one key for the whole class: what the playlists look like after a Write failed half-way
			// through a rotation is one finding, whatever invariant a particular response breaks.
			// Panics, races, stuck requests and differing bodies keep their own keys.
			vmu.Lock()
			res.obs["folded_into_after_failed_rotation/"+key]++
			vmu.Unlock()
			f, key = "after a Write failed inside a segment rotation: ["+key+"] "+f, "after-failed-rotation/inconsistent-view"
		}
		vmu.Lock()
		defer vmu.Unlock()
		if len(res.viol) < 30 {
			res.viol = append(res.viol, "C08/"+key+"|"+fmt.Sprintf(f, a...))
		}
	}
	count := func(k string) {
		vmu.Lock()
		res.obs[k]++
		vmu.Unlock()
	}
	rng := rand.New(rand.NewSource(seed*1000003 + int64(idx)*7 + 1))
	variant := 1 + idx%3
	disk := (idx/3)%2 == 0
	c := media.Gen(seed, 300000+idx, media.GenOpts{Profile: "general", Variant: variant, MaxWrites: 500, MinSegments: 6, MaxSegments: 10, ForceDisk: &disk})
	h := muxrun.New(c, muxrun.Options{})
	if h.StartErr != "" {
		fail("harness", "start: %s", h.StartErr)
		return res
	}
	defer h.Cleanup()

	var phase atomic.Int32
	key := h.M.VerifKey()
	delaySeed := atomic.Int64{}
	delaySeed.Store(seed*31 + int64(idx))
	jitter := func(max int) {
		v := delaySeed.Add(0x9E3779B97F4A7C15 >> 1)
		v ^= v >> 29
		switch v & 3 {
		case 0:
		case 1:
			runtime.Gosched()
		default:
			time.Sleep(time.Duration(int(uint64(v)>>8)%max) * time.Microsecond)
		}
	}
	// write index of the start of every segment (set by the writer at segment rotations)
	var rotMu sync.Mutex
	var rotStarts []int
	var curWrite atomic.Int64
	probeInit := func(mapURI, where string) {
		lead := c.LeadingTrack()
		ts := &c.Tracks[lead]
		if (ts.Kind != media.H264 && ts.Kind != media.H265) || len(ts.ParamSets) < 2 {
			return
		}
		rotMu.Lock()
		n := len(rotStarts)
		startOfLastComplete := 0
		if n >= 2 {
			startOfLastComplete = rotStarts[n-2]
		}
		rotMu.Unlock()
		if n < 2 {
			return
		}
		rq, st := hx.Get(h.M.Handle, mapURI, 5*time.Second)
		if st != hx.Done || rq.Resp.Status != 200 {
			return
		}
		var init fmp4.Init
		if err := init.Unmarshal(bytes.NewReader(rq.Resp.Body)); err != nil {
			fail("snapshot/init-decode", "init requested %s does not decode: %v", where, err)
			return
		}
		inEffect := -1
		ok := map[int]bool{}
		now := int(curWrite.Load())
		for _, sm := range c.Samples(lead) {
			if sm.ParamIdx < 0 {
				continue
			}
			if sm.WriteIdx <= startOfLastComplete {
				inEffect = sm.ParamIdx
			} else if sm.WriteIdx <= now {
				ok[sm.ParamIdx] = true
			}
		}
		ok[inEffect] = true
		sub := &media.TrackSpec{Kind: ts.Kind}
		for i := range ts.ParamSets {
			if ok[i] {
				sub.ParamSets = append(sub.ParamSets, ts.ParamSets[i])
			}
		}
		for _, it := range init.Tracks {
			cd := codecs.FromFMP4(it.Codec)
			if cd == nil || clirun.KindOf(cd) != ts.Kind {
				continue
			}
			count("window_init_probes")
			if !codecMatches(sub, cd) {
				fail("snapshot/init-stale", "init requested %s carries parameters that were replaced before the last listed segment started (write %d); acceptable sets %v", where, startOfLastComplete, keysOf(ok))
			}
		}
	}
	// forced windows: with the writer (or Close) held exactly between releasing the mutex and the
	// broadcast, the non-blocking URL kinds are requested and validated right there
	windowProbe := func(where string) {
		for _, id := range h.StreamIDs {
			rq, st := hx.Get(h.M.Handle, id+"_stream.m3u8", 5*time.Second)
			if st != hx.Done {
				// before the first content a plain request parks: not a window to probe
				continue
			}
			vmu.Lock()
			res.cells["media@window:"+where]++
			vmu.Unlock()
			if rq.Resp.Panic != "" {
				fail("panic/"+panicKey(rq.Resp.Panic), "window probe (%s) of %s panicked: %s", where, id, rq.Resp.Panic)
				continue
			}
			if rq.Resp.Status != 200 {
				continue
			}
			pl := m3u8x.Parse(rq.Resp.Body)
			for _, v := range oracle.SingleMedia(pl, c.Cfg) {
				k, m := splitKM(v)
				fail("snapshot/"+k, "playlist of %s requested %s is not a consistent snapshot: %s", id, where, m)
			}
			count("window_probes")
			// the init segment served in the same window must already match what is listed (C02:
			// once the first complete segment with changed parameters is listed, the init carries them)
			if pl.Media != nil && pl.Media.HasMap && pl.Media.MapURI != "" && id == h.LeadingStream() {
				probeInit(pl.Media.MapURI, where)
			}
		}
	}
	var probeN atomic.Int32
	hx.OnKey(key, func(point string, arg any) {
		switch point {
		case "rotate.unlocked":
			if a, _ := arg.(string); a == "segments" {
				rotMu.Lock()
				rotStarts = append(rotStarts, int(curWrite.Load()))
				rotMu.Unlock()
			}
			phase.Store(phUnlocked)
			if probeN.Add(1)%3 == 0 {
				windowProbe("between a rotation's unlock and its broadcast")
			} else {
				jitter(300)
			}
		case "close.flagged":
			phase.Store(phClosing)
			jitter(300)
		case "close.broadcast":
			jitter(300)
		}
	})

	var stop atomic.Bool
	var writeCount atomic.Int64
	var wg sync.WaitGroup
	type bodyRec struct {
		hash [32]byte
		n    int
	}
	var bmu sync.Mutex
	bodies := map[string]bodyRec{}
	nReaders := 4 + rng.Intn(12)
	if tier == "thorough" {
		nReaders = 4 + rng.Intn(28)
	}
	streams := h.StreamIDs
	q := ""
	if c.Query != "" {
		q = "?" + c.Query
	}
	kinds := []string{"mv", "media", "media", "blocking", "delta", "init", "segment", "segment", "part", "hint", "unknown"}
	for ri := 0; ri < nReaders; ri++ {
		wg.Add(1)
		rr := rand.New(rand.NewSource(seed*77 + int64(idx)*1009 + int64(ri)))
		go func(ri int) {
			defer wg.Done()
			lastMS, lastEnd := map[string]int{}, map[string]int{}
			msnURI := map[string]string{}
			var cur *m3u8x.Media
			curStream := ""
			for n := 0; n < 4000; n++ {
				if stop.Load() && n%3 == 0 {
					return
				}
				kind := kinds[rr.Intn(len(kinds))]
				id := streams[rr.Intn(len(streams))]
				url := ""
				switch kind {
				case "mv":
					url = "index.m3u8" + q
				case "media":
					url = id + "_stream.m3u8" + q
				case "blocking":
					if c.Cfg.Variant != media.VarLL || cur == nil {
						continue
					}
					st := stateOf(cur)
					sep := "?"
					if q != "" {
						sep = q + "&"
					}
					url = fmt.Sprintf("%s_stream.m3u8%s_HLS_msn=%d&_HLS_part=%d", curStream, sep, st.open, st.parts[st.open]+rr.Intn(2))
				case "delta":
					if c.Cfg.Variant != media.VarLL {
						continue
					}
					sep := "?"
					if q != "" {
						sep = q + "&"
					}
					url = id + "_stream.m3u8" + sep + "_HLS_skip=YES"
				case "init":
					if cur == nil || !cur.HasMap {
						continue
					}
					url = cur.MapURI
				case "segment":
					if cur == nil {
						continue
					}
					s := cur.Segments[rr.Intn(len(cur.Segments))]
					if s.Gap {
						continue
					}
					url = s.URI
				case "part":
					if cur == nil {
						continue
					}
					var ps []string
					for _, s := range cur.Segments {
						for _, p := range s.Parts {
							ps = append(ps, p.URI)
						}
					}
					for _, p := range cur.TrailingParts {
						ps = append(ps, p.URI)
					}
					if len(ps) == 0 {
						continue
					}
					url = ps[rr.Intn(len(ps))]
				case "hint":
					if cur == nil || cur.Hint == nil {
						continue
					}
					url = cur.Hint.URI
				case "unknown":
					url = fmt.Sprintf("nothing%d.mp4", rr.Intn(100))
				}
				phCall := phase.Load()
				var gate chan struct{}
				if (kind == "part" || kind == "segment") && rr.Intn(4) == 0 {
					// a slow client: the body is only accepted after the writer has moved on (a few
					// more writes, or a short while); the bytes must still be the published ones
					gate = make(chan struct{})
					w0 := writeCount.Load()
					need := int64(2 + rr.Intn(40))
					go func() {
						for i := 0; i < 200; i++ {
							if writeCount.Load() >= w0+need || stop.Load() {
								break
							}
							time.Sleep(100 * time.Microsecond)
						}
						close(gate)
					}()
					count("slow_client_requests")
				}
				rq := hx.StartGated(h.M.Handle, url, func(point string) {
					if point == "serve.lookup" {
						jitter(200)
					}
				}, gate)
				st := rq.Wait(1<<30, 30*time.Second)
				if st != hx.Done {
					if phase.Load() == phClosed {
						fail("stuck-after-close", "reader request %s (%s) never completed although the muxer was closed", url, kind)
					} else {
						fail("stuck", "reader request %s (%s) did not complete within the watchdog", url, kind)
					}
					return
				}
				phRet := phase.Load()
				vmu.Lock()
				res.cells[kind+"@"+phaseNames[phCall]]++
				res.cells[kind+"@ret:"+phaseNames[phRet]]++
				res.obs["requests"]++
				vmu.Unlock()
				resp := rq.Resp
				if resp.Panic != "" {
					fail("panic/"+panicKey(resp.Panic), "request %s panicked: %s", url, resp.Panic)
					continue
				}
				if (resp.Status == 404 || resp.Status == 0) && kind == "segment" && cur != nil && curStream != "" {
					// the URI came from the playlist this reader saw last; the segment may have left the
					// window since. If the stream's playlist still lists it now, it was listed all the
					// time in between (windows only move forward) and had to be there.
					if rq2, st2 := hx.Get(h.M.Handle, curStream+"_stream.m3u8"+q, 10*time.Second); st2 == hx.Done && rq2.Resp.Status == 200 {
						if pl2 := m3u8x.Parse(rq2.Resp.Body); pl2.Media != nil {
							for _, s2 := range pl2.Media.Segments {
								if !s2.Gap && s2.URI == url {
									fail("listed-not-found", "segment %s was not served (no handler) and is still listed by %s_stream.m3u8 afterwards", url, curStream)
								}
							}
							count("not_found_segments_rechecked")
						}
					}
				}
				if resp.Status != 200 {
					continue
				}
				switch kind {
				case "media", "blocking", "delta":
					pl := m3u8x.Parse(resp.Body)
					for _, v := range oracle.SingleMedia(pl, c.Cfg) {
						k, m := splitKM(v)
						if kind == "delta" && (k == "c04-empty") {
							continue
						}
						fail("snapshot/"+k, "response to %s is not a consistent snapshot: %s", url, m)
					}
					if pl.Media == nil {
						continue
					}
					if kind == "blocking" {
						// C06 safety clause under free-running schedules: the response must contain
						// the part that was asked for (roll-over into the next segment allowed)
						var m, p int
						if i := strings.Index(url, "_HLS_msn="); i >= 0 {
							fmt.Sscanf(url[i:], "_HLS_msn=%d&_HLS_part=%d", &m, &p)
							rs := stateOf(pl.Media)
							// requests are issued for the open segment of the playlist the reader saw last:
							// the answer must have reached that part, or have moved past that segment
							ok := !(m > rs.open || (m == rs.open && p >= rs.parts[m]))
							vmu.Lock()
							res.obs["blocking_responses_checked"]++
							if !ok {
								res.c06viol = append(res.c06viol, fmt.Sprintf("C06/free-running-premature|request %s was answered with a playlist that lists segments up to %d and %d parts of the open one", url, rs.open-1, rs.parts[rs.open]))
							}
							vmu.Unlock()
						}
					}
					count("playlists_validated")
					if kind == "media" {
						sid := id
						cur, curStream = pl.Media, sid
						ms, end := pl.Media.MediaSequence, pl.Media.MediaSequence+len(pl.Media.Segments)
						if v, ok := lastMS[sid]; ok && ms < v {
							fail("monotone/ms", "reader %d: MEDIA-SEQUENCE of %s went from %d to %d", ri, sid, v, ms)
						}
						if v, ok := lastEnd[sid]; ok && end < v {
							fail("monotone/end", "reader %d: last MSN of %s went from %d to %d", ri, sid, v-1, end-1)
						}
						lastMS[sid], lastEnd[sid] = ms, end
						for _, s := range pl.Media.Segments {
							k := fmt.Sprintf("%s/%d", sid, s.MSN)
							v := s.URI + "|" + s.ExtinfRaw
							if old, ok := msnURI[k]; ok && old != v {
								fail("monotone/msn-function", "reader %d: MSN %d of %s was %s, now %s", ri, s.MSN, sid, old, v)
							}
							msnURI[k] = v
						}
						count("monotone_checks")
					}
				case "mv":
					pl := m3u8x.Parse(resp.Body)
					if len(pl.Violations) > 0 || pl.Multivariant == nil {
						fail("snapshot/mv", "index.m3u8 response is not grammatical: %v", pl.Violations)
					}
				case "init", "segment", "part", "hint":
					if len(resp.Body) == 0 {
						fail("empty-body", "%s %s returned 200 with an empty body", kind, url)
						continue
					}
					name := strings.Split(url, "?")[0]
					if kind == "init" {
						continue // the init may legitimately change after a parameter change
					}
					sum := sha256.Sum256(resp.Body)
					bmu.Lock()
					if old, ok := bodies[name]; ok && old.hash != sum {
						bmu.Unlock()
						fail("body-differs/"+kind, "two readers fetched %s and got different bytes (%d vs %d)", name, old.n, len(resp.Body))
					} else {
						bodies[name] = bodyRec{sum, len(resp.Body)}
						bmu.Unlock()
					}
					count("bodies_compared")
				}
			}
		}(ri)
	}

	// the writer
	werrs := 0
	// every eighth Directory run: half-way, a directory squats the name of the segment file after the
	// open one, so that the rotation that needs it fails; the Write returns an error, the blocker is
	// removed and the writer goes on (an application that logs the error and continues). Readers
	// are active throughout.
	squatAt, blocker := -1, ""
	if disk && (idx/6)%4 == 1 {
		squatAt = len(c.Writes)/3 + rng.Intn(len(c.Writes)/3+1)
	}
	for i := range c.Writes {
		if i == squatAt {
			if es, err := os.ReadDir(h.Dir); err == nil {
				best, bestN := []string(nil), -1
				for _, e := range es {
					if m := reSegName.FindStringSubmatch(e.Name()); m != nil && strings.Contains(m[1], h.LeadingStream()+"_") {
						if n, _ := strconv.Atoi(m[2]); n > bestN {
							best, bestN = m, n
						}
					}
				}
				if best != nil {
					blocker = filepath.Join(h.Dir, fmt.Sprintf("%sseg%d%s", best[1], bestN+1, best[3]))
					if os.Mkdir(blocker, 0o755) != nil {
						blocker = ""
					} else {
						// (from here on: readers may see the failure before the Write has returned)
						failedRotation.Store(true)
						count("rotations_made_to_fail")
					}
				}
			}
			if blocker == "" {
				squatAt++ // nothing on disk yet: try again at the next write
			}
		}
		phase.Store(phWrite)
		var err error
		func() {
			defer func() {
				if p := recover(); p != nil {
					err = fmt.Errorf("panic: %v", p)
					fail("panic/writer", "write %d panicked: %v", i, p)
				}
			}()
			curWrite.Store(int64(i))
			err = h.DoWrite(i)
		}()
		writeCount.Add(1)
		phase.Store(phIdle)
		if err == muxrun.ErrWriteStuck {
			fail("writer-stuck", "%s", h.Hangs[len(h.Hangs)-1])
			break
		}
		if err != nil {
			werrs++
			if blocker != "" {
				count("writes_failed_in_a_rotation")
				os.Remove(blocker)
				blocker = ""
			}
		}
		if i%3 == 0 {
			runtime.Gosched()
		}
		if i%16 == 0 {
			time.Sleep(time.Duration(rng.Intn(300)) * time.Microsecond)
		}
	}
	// Close while the readers are active
	time.Sleep(time.Duration(rng.Intn(2000)) * time.Microsecond)
	closeDone := make(chan struct{})
	h.Closed = true
	go func() {
		h.M.Close()
		phase.Store(phClosed)
		close(closeDone)
	}()
	select {
	case <-closeDone:
	case <-time.After(20 * time.Second):
		fail("close-hangs", "Close did not return while readers were active")
	}
	stop.Store(true)
	done := make(chan struct{})
	go func() { wg.Wait(); close(done) }()
	select {
	case <-done:
	case <-time.After(60 * time.Second):
		fail("readers-stuck", "readers did not finish after Close")
	}
	res.obs["cases"]++
	res.obs["write_errors"] += werrs
	res.sig = fmt.Sprintf("v%d|disk%v|r%d|%s", variant, disk, nReaders/4, kindsOfCase(c))
	return res
}

func kindsOfCase(c *media.Case) string {
	var ks []string
	for _, t := range c.Tracks {
		ks = append(ks, t.Kind.String())
	}
	sort.Strings(ks)
	s := strings.Join(ks, "+")
	if c.Features["paramchange"] {
		s += "+paramchange"
	}
	return s
}

func panicKey(p string) string {
	p = strings.Join(strings.Fields(p), "-")
	if len(p) > 40 {
		p = p[:40]
	}
	return p
}

func checkC08(tier string, seed int64) int {
	rep := ev.NewReporter("C08")
	n := 120
	repeats := 3
	if tier == "thorough" {
		n, repeats = 600, 6
	}
	obs := map[string]int{}
	cells := map[string]int{}
	sigs := map[string]bool{}
	var mu sync.Mutex
	// alone in the process (the file size limit is process-wide): a disk write fault during a
	// rotation, then more Writes and requests - no panic (see flushFault in c07.go)
	hx.Install()
	flushFault(rep, seed, obs, true)
	ch := make(chan [2]int)
	var wg sync.WaitGroup
	// a few muxers in parallel: more interleavings per wall-clock second, and the race detector
	// sees all of them
	for w := 0; w < 4; w++ {
		wg.Add(1)
		go func(slot int) {
			defer wg.Done()
			for job := range ch {
				idx := job[0]
				ref := caseRef{"C08", seed + int64(job[1])*1000, idx, tier}
				rep.Current(slot, ref)
				r := runC08Case(ref.Seed, idx, tier)
				mu.Lock()
				for k, v := range r.obs {
					obs[k] += v
				}
				for k, v := range r.cells {
					cells[k] += v
				}
				sigs[r.sig] = true
				mu.Unlock()
				for _, v := range r.viol {
					k, m := splitKM(v)
					rep.Report(k, fmt.Sprintf("case %d (repeat %d): %s", idx, job[1], m), ref)
				}
			}
		}(w)
	}
	for rpt := 0; rpt < repeats; rpt++ {
		for i := 0; i < n; i++ {
			ch <- [2]int{i, rpt}
		}
	}
	close(ch)
	wg.Wait()

	// race reports of this very process
	prefix := ""
	for _, kv := range strings.Fields(os.Getenv("GORACE")) {
		if strings.HasPrefix(kv, "log_path=") {
			prefix = strings.TrimPrefix(kv, "log_path=")
		}
	}
	raceEnabled := prefix != ""
	var raceSamples []any
	distinctRaces := 0
	totalRaces := 0
	if raceEnabled {
		time.Sleep(200 * time.Millisecond)
		reports, total := racelog.Parse(prefix + "." + fmt.Sprint(os.Getpid()))
		totalRaces = total
		distinctRaces = len(reports)
		for _, r := range reports {
			if r.HarnessOnly {
				fmt.Printf("HARNESS-RACE (monitor defect, not a verdict about gohlslib): %s\n", r.Key)
				continue
			}
			dir := filepath.Join(ev.Root, "replays", "C08")
			os.MkdirAll(dir, 0o755)
			name := strings.NewReplacer("/", "_", "|", "--", "*", "", "(", "", ")", "").Replace(r.Key)
			path := filepath.Join(dir, "race-"+name+".txt")
			os.WriteFile(path, []byte(r.First), 0o644)
			rep.Report("C08/race/"+r.Key, fmt.Sprintf("data race (%d reports) between %s; entry points %s; report in %s", r.Count, r.Key, r.Outer, path),
				map[string]any{"property": "C08", "race_report": path, "seed": seed})
			if len(raceSamples) < 3 {
				raceSamples = append(raceSamples, map[string]any{"key": r.Key, "count": r.Count, "outer": r.Outer})
			}
		}
	} else {
		fmt.Println("INCONCLUSIVE property=C08 GORACE log_path not set: race reports are not collected")
	}
	var emptyCells []string
	reach := map[string][]string{
		"mv": {"idle", "in-write"}, "media": {"idle", "in-write"}, "segment": {"idle", "in-write"}, "init": {"idle", "in-write"}, "unknown": {"idle", "in-write"},
		"blocking": {"idle", "in-write"}, "delta": {"idle", "in-write"}, "part": {"idle", "in-write"}, "hint": {"idle", "in-write"},
	}
	for k, phs := range reach {
		for _, ph := range phs {
			if cells[k+"@"+ph] == 0 {
				emptyCells = append(emptyCells, k+"@"+ph)
			}
		}
	}
	sort.Strings(emptyCells)
	samples := []any{map[string]any{"cells": cells}}
	samples = append(samples, raceSamples...)
	e := &ev.Evidence{
		PropertyID: "C08", Tier: tier, Seed: seed, Level: "exploration",
		Coverage: map[string]any{
			"evaluations": n * repeats, "distinct_nontrivial": len(sigs),
			"rule":                  "stress runs under the Go race detector: one writer (all variants, RAM and Directory, parameter changes) and 4-15 (thorough: 4-31) readers cycling through every URL kind with seeded delays at the hook points serve.lookup / rotate.unlocked / close.*, then Close while readers are active; every configuration repeated; distinct = distinct (variant, storage, reader bucket, codec set) configurations; interleaving coverage = (URL kind x writer phase at call / at return) cells hit",
			"samples":               samples,
			"observed":              obs,
			"cells_hit":             len(cells),
			"cells_empty":           emptyCells,
			"race_reports_total":    totalRaces,
			"race_reports_distinct": distinctRaces,
			"race_detector":         raceEnabled,
			"known_findings_hit":    rep.KnownHits(),
		},
		Assumptions: []string{
			"the race detector only sees the interleavings that actually happen in these runs; reports are de-duplicated by the unordered pair of innermost gohlslib functions",
			"usage as in the examples: exactly one goroutine calls Write* and finally Close",
		},
		WallS: rep.Elapsed(), Violations: rep.NewViolations(),
	}
	e.Write()
	fmt.Printf("C08: %d runs, %d requests, %d playlists validated, %d cells, %d race reports (%d distinct), %d new violations, %d known findings, %.1fs\n",
		n*repeats, obs["requests"], obs["playlists_validated"], len(cells), totalRaces, distinctRaces, rep.NewViolations(), len(rep.KnownHits()), rep.Elapsed())
	if rep.NewViolations() > 0 {
		return 1
	}
	return 0
}

func init() {
	checks["C08"] = checkC08
	replayers["C08"] = func(path string) int {
		ref, err := readCaseRef(path)
		if err != nil || ref.Property == "" {
			b, _ := os.ReadFile(path)
			fmt.Println(string(b))
			fmt.Println("race reports are schedule dependent: re-run ./check C08 (same VERIF_SEED) to look for the pair again")
			return 0
		}
		r := runC08Case(ref.Seed, ref.Index, ref.Tier)
		for _, v := range r.viol {
			fmt.Println("VIOLATED:", v)
		}
		if len(r.viol) > 0 {
			return 1
		}
		fmt.Println("held on this run (schedule dependent)")
		return 0
	}
}

// foldedAfterFailedRotation lists the single-playlist invariants the recorded finding
// C08/after-failed-rotation/inconsistent-view names (part numbers jump, the hint is not the next
// part, TARGETDURATION below the EXTINF that spans the hole, the init lags one change): only these
// are filed under it. Every other invariant - PART-TARGET below a part duration, durations that do
// not add up, a missing hint, ... - was never broken by the unchanged tree after a failed rotation
// (3 600 thorough runs: c04-part-number 3 974, c03-target 882, c04-hint-wrong 242, init-stale 4,
// nothing else) and keeps its own key.
var foldedAfterFailedRotation = map[string]bool{
	"snapshot/c04-part-number": true,
	"snapshot/c03-target":      true,
	"snapshot/c04-hint-wrong":  true,
	"snapshot/init-stale":      true,
}
