package main

import (
	"bytes"
	"fmt"
	"net/http"
	"net/http/httptest"
	"os"
	"os/signal"
	"runtime"
	"strconv"
	"strings"
	"syscall"
	"time"

	"github.com/bluenviron/gohlslib/v2"
	"github.com/bluenviron/gohlslib/v2/pkg/codecs"
	"github.com/bluenviron/mediacommon/v2/pkg/codecs/mpeg4audio"

	"verif/internal/ev"
	"verif/internal/media"
	"verif/internal/oracle"
)

// C18 "memory stays bounded": the live heap of the process, measured after a forced collection at
// checkpoints of one long write history per variant and storage mode, run alone in the process
// (before the parallel histories start, so that nothing else allocates). The history keeps nothing
// itself: every access unit is built, written and dropped. What is compared is the live heap once
// the window is full (warm-up: SegmentCount + 4 rotations) with the live heap at later checkpoints:
// whatever a muxer retains per rotation beyond its window grows linearly with the history, anything
// bounded does not. Two clauses:
//
//	bytes:   growth <= heapSlackBytes although rotations x segment payload is many times that
//	objects: growth of the number of live objects between the half-way checkpoint and the end is
//	         at most one object per two rotations of that interval (a retained struct per
//	         segment or per part is at least one object per rotation); histories of >= 2400
//	         rotations only (thorough tier)
//
// Verdicts depend on allocation counts, not on time.
const heapSlackBytes = 3 << 20

type heapCase struct {
	variant gohlslib.MuxerVariant
	disk    bool
	audio   bool
}

func (hc heapCase) String() string {
	s := map[gohlslib.MuxerVariant]string{gohlslib.MuxerVariantMPEGTS: "mpegts", gohlslib.MuxerVariantFMP4: "fmp4", gohlslib.MuxerVariantLowLatency: "lowLatency"}[hc.variant]
	if hc.disk {
		s += "+disk"
	}
	if hc.audio {
		s += "+audio"
	}
	return s
}

// within runs f and reports whether it returned within d (a Write or request that never returns - a
// lock left held - must end a history with a verdict, not the monitor).
func within(d time.Duration, f func()) bool {
	done := make(chan struct{})
	go func() { defer close(done); f() }()
	select {
	case <-done:
		return true
	case <-time.After(d):
		return false
	}
}

func liveHeap() (bytes uint64, objects uint64) {
	var ms runtime.MemStats
	runtime.GC()
	runtime.GC()
	runtime.ReadMemStats(&ms)
	return ms.HeapAlloc, ms.HeapObjects
}

// heapHistory runs one history and returns (bytes, objects) at the checkpoints warm, half, end.
func heapHistory(hc heapCase, rotations int, frameSize int, seed int64) (pts [3][2]uint64, written int, err error) {
	vt := &gohlslib.Track{Codec: &codecs.H264{SPS: media.H264SPSVectors[0], PPS: media.H264PPS[0]}, ClockRate: 90000}
	tracks := []*gohlslib.Track{vt}
	var at *gohlslib.Track
	if hc.audio {
		at = &gohlslib.Track{Codec: &codecs.Opus{ChannelCount: 2}, ClockRate: 48000}
		tracks = append(tracks, at)
	}
	segCount := 3 + int(seed%5)
	if hc.variant == gohlslib.MuxerVariantLowLatency && segCount < 7 {
		segCount = 7
	}
	m := &gohlslib.Muxer{
		Variant:            hc.variant,
		SegmentCount:       segCount,
		SegmentMinDuration: 150 * time.Millisecond,
		PartMinDuration:    80 * time.Millisecond,
		Tracks:             tracks,
	}
	var dir string
	if hc.disk {
		dir, err = os.MkdirTemp("", "c18heap")
		if err != nil {
			return pts, 0, err
		}
		defer os.RemoveAll(dir)
		m.Directory = dir
	}
	if err = m.Start(); err != nil {
		return pts, 0, err
	}
	defer m.Close()
	const gop = 5 // frames per GOP at 25 fps: one rotation every 200 ms
	warm := (segCount + 4) * gop
	total := rotations * gop
	half := warm + (total-warm)/2
	ntp := time.Date(2024, 3, 1, 10, 0, 0, 0, time.UTC)
	body := make([]byte, frameSize)
	for i := range body {
		body[i] = byte(i*7 + int(seed))
	}
	opus := make([]byte, 120)
	for i := 0; i <= total; i++ {
		switch i {
		case warm:
			pts[0][0], pts[0][1] = liveHeap()
		case half:
			pts[1][0], pts[1][1] = liveHeap()
		case total:
			pts[2][0], pts[2][1] = liveHeap()
			return pts, i, nil
		}
		p := int64(i) * 3600
		t := ntp.Add(time.Duration(i) * 40 * time.Millisecond)
		nalu := make([]byte, 1+frameSize)
		copy(nalu[1:], body)
		nalu[0] = 0x41
		if i%gop == 0 {
			nalu[0] = 0x65
		}
		au := [][]byte{nalu}
		if i%gop == 0 {
			au = [][]byte{media.H264SPSVectors[0], media.H264PPS[0], nalu}
		}
		if err = m.WriteH264(vt, t, p, au); err != nil {
			return pts, i, err
		}
		if at != nil {
			// two 20 ms Opus packets per video frame
			pk := append([]byte{0xfc}, opus...)
			if err = m.WriteOpus(at, t, int64(i)*1920, [][]byte{pk, pk}); err != nil {
				return pts, i, err
			}
		}
	}
	return pts, total, nil
}

func heapProbe(rep *ev.Reporter, tier string, seed int64, stats oracle.Stats) {
	limitProbe(rep, tier, seed, stats)
	retentionProbe(rep, tier, seed, stats)
	faultRetention(rep, tier, seed, stats)
	rot, frame := 400, 12<<10
	if tier == "thorough" {
		rot = 3000
	}
	if v, err := strconv.Atoi(os.Getenv("C18_HEAPROT")); err == nil && v > 0 {
		rot = v // development aid
	}
	cases := []heapCase{
		{gohlslib.MuxerVariantMPEGTS, false, false},
		{gohlslib.MuxerVariantFMP4, false, false},
		{gohlslib.MuxerVariantLowLatency, false, false},
		{gohlslib.MuxerVariantFMP4, true, false},
		{gohlslib.MuxerVariantLowLatency, true, true},
		{gohlslib.MuxerVariantMPEGTS, true, false},
		{gohlslib.MuxerVariantLowLatency, false, true},
	}
	for k, hc := range cases {
		ref := caseRef{"C18", seed, -(k + 1), tier}
		pts, written, err := heapHistory(hc, rot, frame, seed)
		if err != nil {
			fmt.Printf("HARNESS: heap history %s: %v after %d writes\n", hc, err, written)
			continue
		}
		stats["C18.heap_histories"]++
		stats["C18.heap_history_rotations"] += rot
		dBytes := int64(pts[2][0]) - int64(pts[0][0])
		dObj := int64(pts[2][1]) - int64(pts[1][1])
		payload := int64(rot) * 5 * int64(frame)
		fmt.Printf("C18 heap %-18s %d rotations, %d MB of payload written: live heap warm=%d KB half=%d KB end=%d KB, live objects half=%d end=%d\n",
			hc, rot, payload>>20, pts[0][0]>>10, pts[1][0]>>10, pts[2][0]>>10, pts[1][1], pts[2][1])
		if dBytes > heapSlackBytes {
			rep.Report("C18/heap-growth/"+hc.String(), fmt.Sprintf("%s: the live heap grew by %d KB between the checkpoint at which the window was full and rotation %d while %d MB of media went through a window of a few segments",
				hc, dBytes>>10, rot, payload>>20), ref)
		}
		interval := int64(rot) / 2
		// (the count fluctuates by about +-200 whatever the length: queued parts, playlist caches,
		// timers; the clause is applied only where one object per two rotations is well above that)
		if interval >= 1200 && dObj > interval/2 {
			rep.Report("C18/heap-objects/"+hc.String(), fmt.Sprintf("%s: the number of live heap objects grew by %d over the second half of the history (%d rotations): something is retained per rotation",
				hc, dObj, interval), ref)
		}
	}
}

// ---- SegmentMaxSize at the exact boundary
//
// "No published segment holds more than SegmentMaxSize bytes of media payload; the Write that would
// exceed the limit returns an error": a segment of exactly SegmentMaxSize bytes does not exceed it.
// One track whose every write carries exactly S bytes of media (an Opus packet, an AAC access unit,
// an H264 access unit in MPEG-TS where the payload is the NAL units as given), a segment that never
// rotates (SegmentMinDuration far beyond the history), and three limits around k x S:
//
//	limit k*S-1   -> the first failing write is w
//	limit k*S     -> must be w+1 (one more sample fits exactly)
//	limit k*S+S-1 -> must be w+1 too (the next one still does not fit)
//
// The comparison is between runs, so nothing is assumed about how many samples the muxer holds back
// before it accounts for them.
type limitCase struct {
	variant gohlslib.MuxerVariant
	codec   string
}

func (lc limitCase) String() string {
	return map[gohlslib.MuxerVariant]string{gohlslib.MuxerVariantMPEGTS: "mpegts", gohlslib.MuxerVariantFMP4: "fmp4", gohlslib.MuxerVariantLowLatency: "lowLatency"}[lc.variant] + "/" + lc.codec
}

// firstFailingWrite returns the index of the first write that returns an error (-1: none in n writes).
func firstFailingWrite(lc limitCase, s int, limit uint64, n int) (int, string, error) {
	var tr *gohlslib.Track
	switch lc.codec {
	case "opus":
		tr = &gohlslib.Track{Codec: &codecs.Opus{ChannelCount: 2}, ClockRate: 48000}
	case "aac":
		tr = &gohlslib.Track{Codec: &codecs.MPEG4Audio{Config: mpeg4audio.AudioSpecificConfig{Type: 2, SampleRate: 44100, ChannelCount: 2}}, ClockRate: 44100}
	case "h264":
		tr = &gohlslib.Track{Codec: &codecs.H264{SPS: media.H264SPSVectors[0], PPS: media.H264PPS[0]}, ClockRate: 90000}
	}
	segCount := 3
	if lc.variant == gohlslib.MuxerVariantLowLatency {
		segCount = 7
	}
	m := &gohlslib.Muxer{
		Variant: lc.variant, SegmentCount: segCount, SegmentMinDuration: time.Hour, PartMinDuration: 200 * time.Millisecond,
		SegmentMaxSize: limit, Tracks: []*gohlslib.Track{tr},
	}
	if err := m.Start(); err != nil {
		return 0, "", err
	}
	defer m.Close()
	ntp := time.Date(2024, 3, 1, 10, 0, 0, 0, time.UTC)
	for i := 0; i < n; i++ {
		var err error
		switch lc.codec {
		case "opus":
			pk := make([]byte, s)
			pk[0] = 0xfc // CELT fullband, 20 ms, stereo, one frame
			err = m.WriteOpus(tr, ntp.Add(time.Duration(i)*20*time.Millisecond), int64(i)*960, [][]byte{pk})
		case "aac":
			au := make([]byte, s)
			au[0] = 0x21
			err = m.WriteMPEG4Audio(tr, ntp.Add(time.Duration(i)*1024*time.Second/44100), int64(i)*1024, [][]byte{au})
		case "h264":
			var au [][]byte
			if i == 0 {
				sps, pps := media.H264SPSVectors[0], media.H264PPS[0]
				nalu := make([]byte, s-len(sps)-len(pps))
				nalu[0] = 0x65
				au = [][]byte{sps, pps, nalu}
			} else {
				nalu := make([]byte, s)
				nalu[0] = 0x41
				au = [][]byte{nalu}
			}
			err = m.WriteH264(tr, ntp.Add(time.Duration(i)*40*time.Millisecond), int64(i)*3600, au)
		}
		if err != nil {
			return i, err.Error(), nil
		}
	}
	return -1, "", nil
}

func limitProbe(rep *ev.Reporter, tier string, seed int64, stats oracle.Stats) {
	cases := []limitCase{
		{gohlslib.MuxerVariantMPEGTS, "h264"},
		{gohlslib.MuxerVariantMPEGTS, "aac"},
		{gohlslib.MuxerVariantFMP4, "aac"},
		{gohlslib.MuxerVariantFMP4, "opus"},
		{gohlslib.MuxerVariantLowLatency, "opus"},
		{gohlslib.MuxerVariantLowLatency, "aac"},
	}
	reps := 4
	if tier == "thorough" {
		reps = 40
	}
	for ci, lc := range cases {
		for r := 0; r < reps; r++ {
			h := uint64(seed)*2654435761 + uint64(ci)*40503 + uint64(r)*9176
			s := 64 + int(h%400)
			k := 2 + int((h/400)%30)
			ref := caseRef{"C18", seed, -(100 + ci*100 + r), tier}
			var w [3]int
			bad := false
			for j, limit := range []uint64{uint64(k*s - 1), uint64(k * s), uint64(k*s + s - 1)} {
				idx, msg, err := firstFailingWrite(lc, s, limit, k+8)
				if err != nil {
					fmt.Printf("HARNESS: limit history %s: %v\n", lc, err)
					bad = true
					break
				}
				if idx >= 0 && !strings.Contains(msg, "maximum segment size") {
					rep.Report("C18/limit-boundary/other-error", fmt.Sprintf("%s: write %d of %d-byte samples failed with %q (limit %d)", lc, idx, s, msg, limit), ref)
					bad = true
					break
				}
				w[j] = idx
			}
			if bad {
				continue
			}
			stats["C18.limit_boundaries_checked"]++
			// a single sample that is larger than the whole limit can never be stored: some Write of
			// the first few must fail (the muxer may hold a sample back for one Write)
			if idx, msg, err := firstFailingWrite(lc, s, uint64(s/2), 6); err == nil {
				stats["C18.oversize_samples_checked"]++
				if idx < 0 {
					rep.Report("C18/limit-boundary/oversize-sample/"+lc.String(), fmt.Sprintf("%s: six writes of %d-byte samples went through with SegmentMaxSize %d: a sample larger than the limit was buffered instead of refused", lc, s, s/2), ref)
				} else if !strings.Contains(msg, "maximum segment size") {
					rep.Report("C18/limit-boundary/other-error", fmt.Sprintf("%s: write %d of %d-byte samples failed with %q (limit %d)", lc, idx, s, msg, s/2), ref)
				}
			}
			switch {
			case w[0] < 0 || w[1] < 0 || w[2] < 0:
				rep.Report("C18/limit-boundary/no-error/"+lc.String(), fmt.Sprintf("%s: %d writes of %d bytes each went through with SegmentMaxSize around %d x %d and a segment that never rotates (first failing writes %v)", lc, k+8, s, k, s, w), ref)
			case w[1] != w[0]+1:
				rep.Report("C18/limit-boundary/exact-fit/"+lc.String(), fmt.Sprintf("%s: samples of %d bytes, SegmentMaxSize %d -> first failing write %d, SegmentMaxSize %d (= %d samples exactly) -> first failing write %d: a segment of exactly SegmentMaxSize bytes does not exceed the limit, one more sample must fit", lc, s, k*s-1, w[0], k*s, k, w[1]), ref)
			case w[2] != w[1]:
				rep.Report("C18/limit-boundary/overshoot/"+lc.String(), fmt.Sprintf("%s: samples of %d bytes, SegmentMaxSize %d -> first failing write %d, SegmentMaxSize %d (one byte short of %d samples) -> first failing write %d: a sample that does not fit was accepted", lc, s, k*s, w[1], k*s+s-1, k+1, w[2]), ref)
			}
		}
	}
}

// ---- retention across Writes that fail inside a rotation
//
// "for arbitrarily long write histories": a history in which some Writes return an error and the
// application goes on writing is a history too. An AV1 stream alternates between a sequence header
// the init-file generator accepts and one it refuses ("initial_display_delay_present_flag", legal
// AV1): the rotation that has to regenerate the init file fails, the next parameter change repairs
// it. Listed segments, files in Directory and registered URL paths are sampled after every Write and
// compared with the same history without the refused header (the reference run of the same code):
// a failed rotation may leave at most one entry more than the reference ever holds, and nothing may
// accumulate with the number of failures.
type retainCase struct {
	variant gohlslib.MuxerVariant
	disk    bool
}

func (rc retainCase) String() string {
	s := map[gohlslib.MuxerVariant]string{gohlslib.MuxerVariantFMP4: "fmp4", gohlslib.MuxerVariantLowLatency: "lowLatency"}[rc.variant]
	if rc.disk {
		s += "+disk"
	}
	return s
}

type retainObs struct{ listed, files, paths, failures int }

func retentionHistory(rc retainCase, faulty bool, cycles int, seed int64) (max retainObs, final retainObs, err error) {
	goodA := []byte{10, 11, 0, 0, 0, 66, 167, 191, 230, 46, 223, 200, 66}
	goodB := media.AV1SeqHdrVectors[int(seed)%len(media.AV1SeqHdrVectors)]
	if bytes.Equal(goodA, goodB) {
		goodB = media.AV1SeqHdrVectors[(int(seed)+1)%len(media.AV1SeqHdrVectors)]
	}
	// OBU_SEQUENCE_HEADER, has_size, 4 bytes: seq_profile 0, initial_display_delay_present_flag 1
	refused := []byte{0x0a, 0x04, 0x02, 0x00, 0x00, 0x00}
	frame := []byte{0x32, 0x02, 0x10, 0x00} // OBU_FRAME, has_size, 2 bytes
	tr := &gohlslib.Track{Codec: &codecs.AV1{SequenceHeader: goodA}, ClockRate: 90000}
	segCount := 3 + int(seed%3)
	if rc.variant == gohlslib.MuxerVariantLowLatency {
		segCount = 7
	}
	m := &gohlslib.Muxer{
		Variant: rc.variant, SegmentCount: segCount, SegmentMinDuration: time.Second, PartMinDuration: 250 * time.Millisecond,
		Tracks: []*gohlslib.Track{tr}, OnEncodeError: func(error) {},
	}
	var dir string
	if rc.disk {
		dir, err = os.MkdirTemp("", "c18ret")
		if err != nil {
			return
		}
		defer os.RemoveAll(dir)
		m.Directory = dir
	}
	if err = m.Start(); err != nil {
		return
	}
	defer within(5*time.Second, m.Close)
	ntp := time.Date(2024, 1, 1, 0, 0, 0, 0, time.UTC)
	n := 0
	stuck := false
	sample := func() retainObs {
		var o retainObs
		rec := httptest.NewRecorder()
		m.Handle(rec, httptest.NewRequest(http.MethodGet, "/video1_stream.m3u8", nil))
		for _, line := range strings.Split(rec.Body.String(), "\n") {
			if line != "" && !strings.HasPrefix(line, "#") {
				o.listed++
			}
		}
		if dir != "" {
			es, _ := os.ReadDir(dir)
			o.files = len(es)
		}
		o.paths = m.VerifPathCount()
		return o
	}
	write := func(sh []byte, key bool) {
		var tu [][]byte
		if key {
			tu = [][]byte{sh, frame}
		} else {
			tu = [][]byte{frame}
		}
		if stuck {
			return
		}
		var e error
		wn := n
		if !within(20*time.Second, func() { e = m.WriteAV1(tr, ntp.Add(time.Duration(wn)*500*time.Millisecond), int64(wn)*45000, tu) }) {
			stuck = true
			return
		}
		n++
		if e != nil {
			max.failures++
		}
		if n > 2*segCount+2 { // (the playlist is served once there is content)
			o := sample()
			if o.listed > max.listed {
				max.listed = o.listed
			}
			if o.files > max.files {
				max.files = o.files
			}
			if o.paths > max.paths {
				max.paths = o.paths
			}
			final = o
		}
	}
	gop := func(sh []byte) { // two seconds: a key frame and three more frames
		write(sh, true)
		for k := 0; k < 3; k++ {
			write(sh, false)
		}
	}
	for k := 0; k < segCount+2; k++ {
		gop(goodA)
	}
	for c := 0; c < cycles; c++ {
		// (the init file is regenerated when the first segment that starts with the new header is
		// published: the header has to last two GOPs)
		if faulty {
			gop(refused)
			gop(refused)
		} else {
			gop(goodB)
			gop(goodB)
		}
		gop(goodA)
		gop(goodA)
	}
	for k := 0; k < 2*segCount+4; k++ {
		gop(goodA)
	}
	if stuck {
		return max, final, fmt.Errorf("write %d did not return within 20 s (a lock left held by a failed rotation?)", n)
	}
	return max, final, nil
}

func retentionProbe(rep *ev.Reporter, tier string, seed int64, stats oracle.Stats) {
	cycles := 8
	if tier == "thorough" {
		cycles = 60
	}
	for k, rc := range []retainCase{{gohlslib.MuxerVariantFMP4, false}, {gohlslib.MuxerVariantFMP4, true}, {gohlslib.MuxerVariantLowLatency, false}, {gohlslib.MuxerVariantLowLatency, true}} {
		ref := caseRef{"C18", seed, -(1000 + k), tier}
		cm, _, err := retentionHistory(rc, false, cycles, seed)
		if err != nil {
			fmt.Printf("HARNESS: retention history %s: %v\n", rc, err)
			continue
		}
		fm, ff, err := retentionHistory(rc, true, cycles, seed)
		if err != nil && strings.Contains(err.Error(), "did not return") {
			rep.Report("C18/retention-after-failed-write/writer-stuck", fmt.Sprintf("%s: %v", rc, err), ref)
			continue
		}
		if err != nil {
			fmt.Printf("HARNESS: retention history %s: %v\n", rc, err)
			continue
		}
		stats["C18.failed_rotation_histories"]++
		stats["C18.failed_rotations"] += fm.failures
		fmt.Printf("C18 retention %-16s %d cycles: reference max listed/files/paths %d/%d/%d; with %d failed Writes max %d/%d/%d, at the end %d/%d/%d\n",
			rc, cycles, cm.listed, cm.files, cm.paths, fm.failures, fm.listed, fm.files, fm.paths, ff.listed, ff.files, ff.paths)
		if fm.failures == 0 {
			fmt.Printf("INCONCLUSIVE property=C18 retention history %s: no Write failed, the refused sequence header was accepted\n", rc)
			continue
		}
		chk := func(what string, got, refMax, end int) {
			if got > refMax+1 {
				rep.Report("C18/retention-after-failed-write/"+what, fmt.Sprintf("%s: up to %d %s in a history with %d failed rotations, the same history without failures never holds more than %d", rc, got, what, fm.failures, refMax), ref)
			} else if end > refMax {
				rep.Report("C18/retention-after-failed-write/"+what+"-at-end", fmt.Sprintf("%s: %d %s still held many clean rotations after the last failure, the history without failures never holds more than %d", rc, end, what, refMax), ref)
			}
		}
		chk("listed segments", fm.listed, cm.listed, ff.listed)
		chk("files", fm.files, cm.files, ff.files)
		chk("url paths", fm.paths, cm.paths, ff.paths)
	}
}

// ---- retention across a disk write fault episode (MPEG-TS, Directory)
//
// For a stretch of the history the process's file size limit is a few KB (SIGXFSZ ignored): every
// flush of a finished segment fails, the Write returns the error and the writer goes on; then the
// limit is lifted. Files in Directory are counted after every Write: never more than
// SegmentCount + 2 (the window, the open segment and one being torn down), and none after Close.
// (The fMP4 variants are left out: their writer panics after a failed part flush, a recorded finding
// of C08.) Runs alone in the process, like everything in this file.
func faultRetention(rep *ev.Reporter, tier string, seed int64, stats oracle.Stats) {
	ref := caseRef{"C18", seed, -2000, tier}
	dir, err := os.MkdirTemp("", "c18wf")
	if err != nil {
		fmt.Println("HARNESS: C18 write-fault history:", err)
		return
	}
	defer os.RemoveAll(dir)
	tr := &gohlslib.Track{Codec: &codecs.H264{SPS: media.H264SPSVectors[0], PPS: media.H264PPS[0]}, ClockRate: 90000}
	segCount := 3 + int(seed%3)
	m := &gohlslib.Muxer{Variant: gohlslib.MuxerVariantMPEGTS, SegmentCount: segCount, SegmentMinDuration: time.Second, Directory: dir, Tracks: []*gohlslib.Track{tr}}
	if err := m.Start(); err != nil {
		fmt.Println("HARNESS: C18 write-fault history:", err)
		return
	}
	signal.Ignore(syscall.SIGXFSZ)
	defer signal.Reset(syscall.SIGXFSZ)
	var old syscall.Rlimit
	syscall.Getrlimit(syscall.RLIMIT_FSIZE, &old)
	ntp := time.Date(2024, 6, 1, 8, 0, 0, 0, time.UTC)
	episodes := 2
	if tier == "thorough" {
		episodes = 10
	}
	n, failed, maxFiles := 0, 0, 0
	stuck := false
	write := func() {
		nalu := make([]byte, 1500)
		nalu[0] = 0x41
		au := [][]byte{nalu}
		if n%25 == 0 {
			nalu[0] = 0x65
			au = [][]byte{media.H264SPSVectors[0], media.H264PPS[0], nalu}
		}
		func() {
			defer func() {
				if pv := recover(); pv != nil {
					rep.Report("C18/write-fault/writer-panic", fmt.Sprintf("mpegts: write %d panicked during a write-fault episode: %v", n, pv), ref)
				}
			}()
			if stuck {
				return
			}
			var e error
			wn := n
			if !within(20*time.Second, func() { e = m.WriteH264(tr, ntp.Add(time.Duration(wn)*40*time.Millisecond), int64(wn)*3600, au) }) {
				stuck = true
				rep.Report("C18/write-fault/writer-stuck", fmt.Sprintf("mpegts: write %d did not return within 20 s during a write-fault history", wn), ref)
				return
			}
			if e != nil {
				failed++
			}
		}()
		n++
		if es, err := os.ReadDir(dir); err == nil && len(es) > maxFiles {
			maxFiles = len(es)
		}
	}
	for e := 0; e < episodes; e++ {
		for i := 0; i < 25*(segCount+2); i++ { // fault-free: the window fills
			write()
		}
		syscall.Setrlimit(syscall.RLIMIT_FSIZE, &syscall.Rlimit{Cur: 8192, Max: old.Max})
		for i := 0; i < 25*6; i++ { // six segment periods under the limit
			write()
		}
		syscall.Setrlimit(syscall.RLIMIT_FSIZE, &old)
	}
	for i := 0; i < 25*(segCount+3); i++ {
		write()
	}
	es, _ := os.ReadDir(dir)
	endFiles := len(es)
	if stuck {
		syscall.Setrlimit(syscall.RLIMIT_FSIZE, &old)
		return
	}
	m.Close()
	left, _ := os.ReadDir(dir)
	stats["C18.write_fault_histories"]++
	stats["C18.write_fault_failed_writes"] += failed
	fmt.Printf("C18 write faults mpegts+disk: %d writes, %d failed, at most %d files in Directory (SegmentCount %d), %d at the end, %d after Close\n", n, failed, maxFiles, segCount, endFiles, len(left))
	if failed == 0 {
		fmt.Println("INCONCLUSIVE property=C18 write-fault history: no Write failed under the file size limit")
		return
	}
	if maxFiles > segCount+2 {
		rep.Report("C18/write-fault/files", fmt.Sprintf("mpegts: up to %d files in Directory during a history with %d failed Writes, SegmentCount is %d", maxFiles, failed, segCount), ref)
	} else if endFiles > segCount+1 {
		rep.Report("C18/write-fault/files-at-end", fmt.Sprintf("mpegts: %d files in Directory long after the last failed Write, SegmentCount is %d", endFiles, segCount), ref)
	}
	if len(left) > 0 {
		rep.Report("C18/write-fault/left-after-close", fmt.Sprintf("mpegts: %d files left in Directory after Close (%d Writes had failed on disk write faults)", len(left), failed), ref)
	}
}
