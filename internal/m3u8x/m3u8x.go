// Package m3u8x is an independent M3U8 reader with a strict RFC 8216 / 8216bis grammar.
// It shares no code with gohlslib's pkg/playlist.
package m3u8x

import (
	"fmt"
	"regexp"
	"strconv"
	"strings"
	"time"
)

// Attr is one attribute of an attribute list.
type Attr struct {
	Name   string
	Raw    string // raw value text (with quotes when quoted)
	Quoted bool
	Val    string // value without quotes
}

// Tag is one playlist line starting with #EXT.
type Tag struct {
	Line  int
	Name  string // e.g. EXT-X-PART
	Value string // text after ':' ("" when none)
	Attrs []Attr // when the tag carries an attribute list
}

// Attr returns an attribute by name.
func (t *Tag) Attr(name string) (Attr, bool) {
	for _, a := range t.Attrs {
		if a.Name == name {
			return a, true
		}
	}
	return Attr{}, false
}

// ByteRange is n[@o].
type ByteRange struct {
	Length uint64
	Start  *uint64
}

// Part is an EXT-X-PART.
type Part struct {
	URI         string
	DurRaw      string
	DurNS       int64
	Independent bool
	Gap         bool
	ByteRange   *ByteRange
}

// Key is an EXT-X-KEY.
type Key struct {
	Method, URI, IV, KeyFormat, KeyFormatVersions string
}

// Segment is a media segment.
type Segment struct {
	MSN       int
	URI       string
	ExtinfRaw string
	DurNS     int64
	Title     string
	Gap       bool
	Disc      bool
	PDTRaw    string
	PDT       *time.Time
	Bitrate   *int
	Key       *Key
	ByteRange *ByteRange
	Parts     []Part
}

// Hint is an EXT-X-PRELOAD-HINT.
type Hint struct {
	Type        string
	URI         string
	RangeStart  *uint64
	RangeLength *uint64
}

// ServerControl is an EXT-X-SERVER-CONTROL.
type ServerControl struct {
	CanBlockReload bool
	PartHoldBackNS *int64
	HoldBackNS     *int64
	CanSkipUntilNS *int64
}

// Media is a media playlist.
type Media struct {
	Version        *int
	Independent    bool
	StartOffsetNS  *int64
	AllowCache     *bool
	TargetDuration int
	HasTarget      bool
	MediaSequence  int
	HasMediaSeq    bool
	DiscSeq        *int
	PlaylistType   string
	ServerControl  *ServerControl
	PartTargetNS   *int64
	MapURI         string
	HasMap         bool
	MapByteRange   *ByteRange
	Skip           *int
	Segments       []Segment
	TrailingParts  []Part
	Hint           *Hint
	EndList        bool
}

// Variant is an EXT-X-STREAM-INF + URI.
type Variant struct {
	URI            string
	Bandwidth      int
	AvgBandwidth   *int
	Codecs         []string
	HasCodecs      bool
	Resolution     string
	FrameRate      *float64
	FrameRateRaw   string
	Audio, Video   string
	Subtitles      string
	ClosedCaptions string
}

// Rendition is an EXT-X-MEDIA.
type Rendition struct {
	Type, GroupID, Name, Language string
	Default, Autoselect, Forced   bool
	URI, Channels, InstreamID     *string
}

// Multivariant is a multivariant playlist.
type Multivariant struct {
	Version       *int
	Independent   bool
	StartOffsetNS *int64
	Variants      []Variant
	Renditions    []Rendition
}

// Playlist is the result of Parse.
type Playlist struct {
	Media        *Media
	Multivariant *Multivariant
	Tags         []Tag
	Violations   []string // strict-grammar violations
	Fatal        string   // set when the input cannot be interpreted at all
}

var (
	reDecInt   = regexp.MustCompile(`^[0-9]{1,20}$`)
	reHex      = regexp.MustCompile(`^0[xX][0-9A-Fa-f]+$`)
	reFloat    = regexp.MustCompile(`^[0-9]+(\.[0-9]+)?$`)
	reSFloat   = regexp.MustCompile(`^-?[0-9]+(\.[0-9]+)?$`)
	reEnum     = regexp.MustCompile(`^[^",\s]+$`)
	reRes      = regexp.MustCompile(`^[0-9]+x[0-9]+$`)
	reAttrName = regexp.MustCompile(`^[A-Z0-9-]+$`)
	reByteRng  = regexp.MustCompile(`^[0-9]+(@[0-9]+)?$`)
)

// DecimalToNS converts a decimal-floating-point text to nanoseconds exactly
// (digits beyond 1 ns are truncated).
func DecimalToNS(s string) (int64, bool) {
	neg := false
	if strings.HasPrefix(s, "-") {
		neg = true
		s = s[1:]
	}
	if !reFloat.MatchString(s) {
		return 0, false
	}
	ip, fp := s, ""
	if i := strings.IndexByte(s, '.'); i >= 0 {
		ip, fp = s[:i], s[i+1:]
	}
	if len(ip) > 9 {
		return 0, false
	}
	iv, _ := strconv.ParseInt(ip, 10, 64)
	for len(fp) < 9 {
		fp += "0"
	}
	fv, _ := strconv.ParseInt(fp[:9], 10, 64)
	v := iv*1e9 + fv
	if neg {
		v = -v
	}
	return v, true
}

type class int

const (
	cInt class = iota
	cHex
	cFloat
	cSFloat
	cQuoted
	cEnum
	cRes
	cQuotedOrEnum
)

type attrSpec struct {
	cls      class
	required bool
	enum     []string // allowed enumerated values (nil = any)
}

type tagSpec struct {
	where   string // "media", "multi", "either"
	max     int    // max occurrences per playlist (0 = unlimited)
	attrs   map[string]attrSpec
	noValue bool // tag must have no ':' part
	perSeg  bool // applies to next segment, at most once per segment
}

var tagSpecs = map[string]tagSpec{
	"EXT-X-VERSION":              {where: "either", max: 1},
	"EXT-X-INDEPENDENT-SEGMENTS": {where: "either", max: 1, noValue: true},
	"EXT-X-START": {where: "either", max: 1, attrs: map[string]attrSpec{
		"TIME-OFFSET": {cls: cSFloat, required: true},
		"PRECISE":     {cls: cEnum, enum: []string{"YES", "NO"}},
	}},
	"EXT-X-TARGETDURATION":         {where: "media", max: 1},
	"EXT-X-MEDIA-SEQUENCE":         {where: "media", max: 1},
	"EXT-X-DISCONTINUITY-SEQUENCE": {where: "media", max: 1},
	"EXT-X-PLAYLIST-TYPE":          {where: "media", max: 1},
	"EXT-X-ALLOW-CACHE":            {where: "media", max: 1},
	"EXT-X-ENDLIST":                {where: "media", max: 1, noValue: true},
	"EXT-X-I-FRAMES-ONLY":          {where: "media", max: 1, noValue: true},
	"EXT-X-SERVER-CONTROL": {where: "media", max: 1, attrs: map[string]attrSpec{
		"CAN-BLOCK-RELOAD":    {cls: cEnum, enum: []string{"YES"}},
		"PART-HOLD-BACK":      {cls: cFloat},
		"HOLD-BACK":           {cls: cFloat},
		"CAN-SKIP-UNTIL":      {cls: cFloat},
		"CAN-SKIP-DATERANGES": {cls: cEnum, enum: []string{"YES"}},
	}},
	"EXT-X-PART-INF": {where: "media", max: 1, attrs: map[string]attrSpec{
		"PART-TARGET": {cls: cFloat, required: true},
	}},
	"EXT-X-SKIP": {where: "media", max: 1, attrs: map[string]attrSpec{
		"SKIPPED-SEGMENTS":            {cls: cInt, required: true},
		"RECENTLY-REMOVED-DATERANGES": {cls: cQuoted},
	}},
	"EXT-X-MAP": {where: "media", attrs: map[string]attrSpec{
		"URI":       {cls: cQuoted, required: true},
		"BYTERANGE": {cls: cQuoted},
	}},
	"EXT-X-KEY": {where: "media", attrs: map[string]attrSpec{
		"METHOD":            {cls: cEnum, required: true, enum: []string{"NONE", "AES-128", "SAMPLE-AES", "SAMPLE-AES-CTR"}},
		"URI":               {cls: cQuoted},
		"IV":                {cls: cHex},
		"KEYFORMAT":         {cls: cQuoted},
		"KEYFORMATVERSIONS": {cls: cQuoted},
	}},
	"EXTINF":                  {where: "media", perSeg: true},
	"EXT-X-BYTERANGE":         {where: "media", perSeg: true},
	"EXT-X-DISCONTINUITY":     {where: "media", perSeg: true, noValue: true},
	"EXT-X-GAP":               {where: "media", perSeg: true, noValue: true},
	"EXT-X-PROGRAM-DATE-TIME": {where: "media", perSeg: true},
	"EXT-X-BITRATE":           {where: "media"},
	"EXT-X-PART": {where: "media", attrs: map[string]attrSpec{
		"URI":         {cls: cQuoted, required: true},
		"DURATION":    {cls: cFloat, required: true},
		"INDEPENDENT": {cls: cEnum, enum: []string{"YES"}},
		"GAP":         {cls: cEnum, enum: []string{"YES"}},
		"BYTERANGE":   {cls: cQuoted},
	}},
	"EXT-X-PRELOAD-HINT": {where: "media", attrs: map[string]attrSpec{
		"TYPE":             {cls: cEnum, required: true, enum: []string{"PART", "MAP"}},
		"URI":              {cls: cQuoted, required: true},
		"BYTERANGE-START":  {cls: cInt},
		"BYTERANGE-LENGTH": {cls: cInt},
	}},
	"EXT-X-MEDIA": {where: "multi", attrs: map[string]attrSpec{
		"TYPE":                {cls: cEnum, required: true, enum: []string{"AUDIO", "VIDEO", "SUBTITLES", "CLOSED-CAPTIONS"}},
		"GROUP-ID":            {cls: cQuoted, required: true},
		"NAME":                {cls: cQuoted, required: true},
		"LANGUAGE":            {cls: cQuoted},
		"ASSOC-LANGUAGE":      {cls: cQuoted},
		"URI":                 {cls: cQuoted},
		"CHANNELS":            {cls: cQuoted},
		"INSTREAM-ID":         {cls: cQuoted},
		"CHARACTERISTICS":     {cls: cQuoted},
		"STABLE-RENDITION-ID": {cls: cQuoted},
		"DEFAULT":             {cls: cEnum, enum: []string{"YES", "NO"}},
		"AUTOSELECT":          {cls: cEnum, enum: []string{"YES", "NO"}},
		"FORCED":              {cls: cEnum, enum: []string{"YES", "NO"}},
	}},
	"EXT-X-STREAM-INF": {where: "multi", attrs: map[string]attrSpec{
		"BANDWIDTH":         {cls: cInt, required: true},
		"AVERAGE-BANDWIDTH": {cls: cInt},
		"CODECS":            {cls: cQuoted},
		"RESOLUTION":        {cls: cRes},
		"FRAME-RATE":        {cls: cFloat},
		"AUDIO":             {cls: cQuoted},
		"VIDEO":             {cls: cQuoted},
		"SUBTITLES":         {cls: cQuoted},
		"CLOSED-CAPTIONS":   {cls: cQuotedOrEnum},
		"HDCP-LEVEL":        {cls: cEnum},
		"VIDEO-RANGE":       {cls: cEnum},
		"STABLE-VARIANT-ID": {cls: cQuoted},
		"PROGRAM-ID":        {cls: cInt},
	}},
}

func classOK(c class, a Attr) bool {
	switch c {
	case cInt:
		return !a.Quoted && reDecInt.MatchString(a.Val)
	case cHex:
		return !a.Quoted && reHex.MatchString(a.Val)
	case cFloat:
		return !a.Quoted && reFloat.MatchString(a.Val)
	case cSFloat:
		return !a.Quoted && reSFloat.MatchString(a.Val)
	case cQuoted:
		return a.Quoted
	case cEnum:
		return !a.Quoted && reEnum.MatchString(a.Val)
	case cRes:
		return !a.Quoted && reRes.MatchString(a.Val)
	case cQuotedOrEnum:
		return a.Quoted || reEnum.MatchString(a.Val)
	}
	return false
}

// parseAttrs tokenizes an attribute list strictly. Lexical problems are returned as violations;
// the tokenizer still tries to continue.
func parseAttrs(s string) ([]Attr, []string) {
	var out []Attr
	var viol []string
	seen := map[string]bool{}
	if s == "" {
		return nil, []string{"empty attribute list"}
	}
	for len(s) > 0 {
		i := strings.IndexByte(s, '=')
		if i < 0 {
			viol = append(viol, fmt.Sprintf("attribute without '=': %q", s))
			break
		}
		name := s[:i]
		s = s[i+1:]
		if !reAttrName.MatchString(name) {
			viol = append(viol, fmt.Sprintf("bad attribute name %q", name))
		}
		if seen[name] {
			viol = append(viol, fmt.Sprintf("duplicate attribute %q", name))
		}
		seen[name] = true
		var a Attr
		a.Name = name
		if len(s) > 0 && s[0] == '"' {
			j := strings.IndexByte(s[1:], '"')
			if j < 0 {
				viol = append(viol, fmt.Sprintf("unterminated quoted string in attribute %q", name))
				a.Quoted = true
				a.Raw = s
				a.Val = s[1:]
				out = append(out, a)
				s = ""
				break
			}
			a.Quoted = true
			a.Val = s[1 : 1+j]
			a.Raw = s[:j+2]
			s = s[j+2:]
			if strings.ContainsAny(a.Val, "\r\n") {
				viol = append(viol, fmt.Sprintf("line break in quoted string of %q", name))
			}
			if len(s) > 0 {
				if s[0] != ',' {
					viol = append(viol, fmt.Sprintf("garbage after quoted value of %q: %q", name, s))
					// skip to next comma
					k := strings.IndexByte(s, ',')
					if k < 0 {
						s = ""
					} else {
						s = s[k+1:]
					}
				} else {
					s = s[1:]
					if s == "" {
						viol = append(viol, "trailing comma in attribute list")
					}
				}
			}
		} else {
			k := strings.IndexByte(s, ',')
			if k < 0 {
				a.Val, a.Raw = s, s
				s = ""
			} else {
				a.Val, a.Raw = s[:k], s[:k]
				s = s[k+1:]
				if s == "" {
					viol = append(viol, "trailing comma in attribute list")
				}
			}
			if a.Val == "" {
				viol = append(viol, fmt.Sprintf("empty value of attribute %q", name))
			}
			if strings.ContainsAny(a.Val, "\" \t") {
				viol = append(viol, fmt.Sprintf("unquoted value of %q contains quote or blank: %q", name, a.Val))
			}
		}
		out = append(out, a)
	}
	return out, viol
}

func parseByteRange(s string) (*ByteRange, bool) {
	if !reByteRng.MatchString(s) {
		return nil, false
	}
	br := &ByteRange{}
	if i := strings.IndexByte(s, '@'); i >= 0 {
		l, err1 := strconv.ParseUint(s[:i], 10, 64)
		o, err2 := strconv.ParseUint(s[i+1:], 10, 64)
		if err1 != nil || err2 != nil {
			return nil, false
		}
		br.Length = l
		br.Start = &o
		return br, true
	}
	l, err := strconv.ParseUint(s, 10, 64)
	if err != nil {
		return nil, false
	}
	br.Length = l
	return br, true
}

var dateLayouts = []string{
	"2006-01-02T15:04:05.999999999Z07:00",
	"2006-01-02T15:04:05.999999999Z0700",
	"2006-01-02T15:04:05.999999999Z07",
}

func parseDate(s string) (*time.Time, bool) {
	for _, l := range dateLayouts {
		if t, err := time.Parse(l, s); err == nil {
			return &t, true
		}
	}
	return nil, false
}

// Parse parses a playlist. It never panics on any input.
func Parse(data []byte) *Playlist {
	pl := &Playlist{}
	text := string(data)
	rawLines := strings.Split(text, "\n")
	// a trailing newline yields one empty last element
	if len(rawLines) > 0 && rawLines[len(rawLines)-1] == "" {
		rawLines = rawLines[:len(rawLines)-1]
	}
	lines := make([]string, len(rawLines))
	for i, l := range rawLines {
		lines[i] = strings.TrimSuffix(l, "\r")
	}
	v := func(line int, f string, args ...any) {
		pl.Violations = append(pl.Violations, fmt.Sprintf("line %d: ", line+1)+fmt.Sprintf(f, args...))
	}
	if len(lines) == 0 || lines[0] != "#EXTM3U" {
		pl.Fatal = "#EXTM3U is not the first line"
		pl.Violations = append(pl.Violations, pl.Fatal)
		return pl
	}

	// first pass: tags, kind
	isMulti, isMedia := false, false
	for _, l := range lines[1:] {
		if strings.HasPrefix(l, "#EXT-X-STREAM-INF:") || strings.HasPrefix(l, "#EXT-X-MEDIA:") {
			isMulti = true
		}
		if strings.HasPrefix(l, "#EXTINF:") || strings.HasPrefix(l, "#EXT-X-TARGETDURATION:") {
			isMedia = true
		}
	}
	if isMulti && isMedia {
		pl.Violations = append(pl.Violations, "playlist mixes media and multivariant tags")
	}
	if !isMulti && !isMedia {
		pl.Fatal = "neither media nor multivariant playlist"
		pl.Violations = append(pl.Violations, pl.Fatal)
		return pl
	}
	kind := "media"
	if isMulti && !isMedia {
		kind = "multi"
	}

	var med *Media
	var mv *Multivariant
	if kind == "media" {
		med = &Media{}
		pl.Media = med
	} else {
		mv = &Multivariant{}
		pl.Multivariant = mv
	}

	counts := map[string]int{}
	cur := Segment{}
	curHas := map[string]bool{} // per-segment tags seen
	haveExtinf := false
	var curKey *Key
	var pendingVariant *Variant
	pendingVariantLine := 0
	segSeen := false

	for li := 1; li < len(lines); li++ {
		l := lines[li]
		if l == "" {
			continue
		}
		if !strings.HasPrefix(l, "#") {
			// URI line
			if kind == "media" {
				if !haveExtinf {
					v(li, "URI line %q not preceded by EXTINF", l)
				}
				cur.URI = l
				cur.Key = curKey
				med.Segments = append(med.Segments, cur)
				cur = Segment{}
				curHas = map[string]bool{}
				haveExtinf = false
				segSeen = true
			} else {
				if pendingVariant == nil || pendingVariantLine != li-1 {
					v(li, "URI line %q not directly preceded by EXT-X-STREAM-INF", l)
					if pendingVariant == nil {
						continue
					}
				}
				pendingVariant.URI = l
				mv.Variants = append(mv.Variants, *pendingVariant)
				pendingVariant = nil
			}
			continue
		}
		if pendingVariant != nil && kind == "multi" && pendingVariantLine == li-1 {
			v(li, "EXT-X-STREAM-INF not followed by a URI line")
			pendingVariant = nil
		}
		if !strings.HasPrefix(l, "#EXT") {
			continue // comment
		}
		name := l[1:]
		value := ""
		hasValue := false
		if i := strings.IndexByte(name, ':'); i >= 0 {
			value = name[i+1:]
			name = name[:i]
			hasValue = true
		}
		tag := Tag{Line: li + 1, Name: name, Value: value}
		spec, known := tagSpecs[name]
		if name == "EXTM3U" {
			v(li, "#EXTM3U repeated")
			continue
		}
		if !known {
			pl.Tags = append(pl.Tags, tag)
			continue // unknown tags are ignored
		}
		counts[name]++
		if spec.max > 0 && counts[name] > spec.max {
			v(li, "%s appears more than %d time(s)", name, spec.max)
		}
		if spec.where == "media" && kind != "media" {
			v(li, "%s in a multivariant playlist", name)
		}
		if spec.where == "multi" && kind != "multi" {
			v(li, "%s in a media playlist", name)
		}
		if spec.noValue && hasValue {
			v(li, "%s must not carry a value", name)
		}
		if !spec.noValue && !hasValue {
			v(li, "%s without value", name)
		}
		if spec.perSeg {
			if curHas[name] {
				v(li, "%s twice for one segment", name)
			}
			curHas[name] = true
		}
		if spec.attrs != nil {
			attrs, viol := parseAttrs(value)
			for _, x := range viol {
				v(li, "%s: %s", name, x)
			}
			tag.Attrs = attrs
			for _, a := range attrs {
				as, ok := spec.attrs[a.Name]
				if !ok {
					continue // unknown attributes are ignored
				}
				if !classOK(as.cls, a) {
					v(li, "%s: attribute %s has wrong lexical type: %s", name, a.Name, a.Raw)
				}
				if as.enum != nil && !a.Quoted {
					ok2 := false
					for _, e := range as.enum {
						if e == a.Val {
							ok2 = true
						}
					}
					if !ok2 && as.cls == cEnum {
						v(li, "%s: attribute %s has illegal value %s", name, a.Name, a.Raw)
					}
				}
			}
			for an, as := range spec.attrs {
				if as.required {
					if _, ok := tag.Attr(an); !ok {
						v(li, "%s: required attribute %s missing", name, an)
					}
				}
			}
		}
		pl.Tags = append(pl.Tags, tag)

		intVal := func() (int, bool) {
			if !reDecInt.MatchString(value) {
				v(li, "%s: value %q is not a decimal-integer", name, value)
				return 0, false
			}
			n, err := strconv.ParseUint(value, 10, 63)
			if err != nil {
				v(li, "%s: value %q out of range", name, value)
				return 0, false
			}
			return int(n), true
		}

		switch name {
		case "EXT-X-VERSION":
			if n, ok := intVal(); ok {
				if med != nil {
					med.Version = &n
				} else {
					mv.Version = &n
				}
			}
		case "EXT-X-INDEPENDENT-SEGMENTS":
			if med != nil {
				med.Independent = true
			} else {
				mv.Independent = true
			}
		case "EXT-X-START":
			if a, ok := tag.Attr("TIME-OFFSET"); ok {
				if ns, ok := DecimalToNS(a.Val); ok {
					if med != nil {
						med.StartOffsetNS = &ns
					} else {
						mv.StartOffsetNS = &ns
					}
				}
			}
		}

		if med != nil {
			switch name {
			case "EXT-X-TARGETDURATION":
				if n, ok := intVal(); ok {
					med.TargetDuration = n
					med.HasTarget = true
				}
			case "EXT-X-MEDIA-SEQUENCE":
				if segSeen {
					v(li, "EXT-X-MEDIA-SEQUENCE after the first segment")
				}
				if n, ok := intVal(); ok {
					med.MediaSequence = n
					med.HasMediaSeq = true
				}
			case "EXT-X-DISCONTINUITY-SEQUENCE":
				if segSeen {
					v(li, "EXT-X-DISCONTINUITY-SEQUENCE after the first segment")
				}
				if n, ok := intVal(); ok {
					med.DiscSeq = &n
				}
			case "EXT-X-PLAYLIST-TYPE":
				if value != "EVENT" && value != "VOD" {
					v(li, "EXT-X-PLAYLIST-TYPE: illegal value %q", value)
				}
				med.PlaylistType = value
			case "EXT-X-ALLOW-CACHE":
				if value != "YES" && value != "NO" {
					v(li, "EXT-X-ALLOW-CACHE: illegal value %q", value)
				}
				b := value == "YES"
				med.AllowCache = &b
			case "EXT-X-ENDLIST":
				med.EndList = true
			case "EXT-X-SERVER-CONTROL":
				sc := &ServerControl{}
				if a, ok := tag.Attr("CAN-BLOCK-RELOAD"); ok {
					sc.CanBlockReload = a.Val == "YES"
				}
				if a, ok := tag.Attr("PART-HOLD-BACK"); ok {
					if ns, ok := DecimalToNS(a.Val); ok {
						sc.PartHoldBackNS = &ns
					}
				}
				if a, ok := tag.Attr("HOLD-BACK"); ok {
					if ns, ok := DecimalToNS(a.Val); ok {
						sc.HoldBackNS = &ns
					}
				}
				if a, ok := tag.Attr("CAN-SKIP-UNTIL"); ok {
					if ns, ok := DecimalToNS(a.Val); ok {
						sc.CanSkipUntilNS = &ns
					}
				}
				med.ServerControl = sc
			case "EXT-X-PART-INF":
				if a, ok := tag.Attr("PART-TARGET"); ok {
					if ns, ok := DecimalToNS(a.Val); ok {
						med.PartTargetNS = &ns
					}
				}
			case "EXT-X-SKIP":
				if segSeen {
					v(li, "EXT-X-SKIP after the first segment")
				}
				if a, ok := tag.Attr("SKIPPED-SEGMENTS"); ok {
					if n, err := strconv.Atoi(a.Val); err == nil {
						med.Skip = &n
					}
				}
			case "EXT-X-MAP":
				if a, ok := tag.Attr("URI"); ok {
					med.MapURI = a.Val
					med.HasMap = true
					if a.Val == "" {
						v(li, "EXT-X-MAP: empty URI")
					}
				}
				if a, ok := tag.Attr("BYTERANGE"); ok {
					br, ok := parseByteRange(a.Val)
					if !ok {
						v(li, "EXT-X-MAP: bad BYTERANGE %q", a.Val)
					}
					med.MapByteRange = br
				}
			case "EXT-X-KEY":
				k := &Key{}
				if a, ok := tag.Attr("METHOD"); ok {
					k.Method = a.Val
				}
				if a, ok := tag.Attr("URI"); ok {
					k.URI = a.Val
				}
				if a, ok := tag.Attr("IV"); ok {
					k.IV = a.Val
				}
				if a, ok := tag.Attr("KEYFORMAT"); ok {
					k.KeyFormat = a.Val
				}
				if a, ok := tag.Attr("KEYFORMATVERSIONS"); ok {
					k.KeyFormatVersions = a.Val
				}
				if k.Method == "NONE" {
					if len(tag.Attrs) != 1 {
						v(li, "EXT-X-KEY: METHOD=NONE with other attributes")
					}
				} else if _, ok := tag.Attr("URI"); !ok {
					v(li, "EXT-X-KEY: URI missing")
				}
				curKey = k
			case "EXTINF":
				haveExtinf = true
				i := strings.IndexByte(value, ',')
				d := value
				if i < 0 {
					v(li, "EXTINF without comma")
				} else {
					d = value[:i]
					cur.Title = value[i+1:]
				}
				cur.ExtinfRaw = d
				if ns, ok := DecimalToNS(d); ok {
					cur.DurNS = ns
				} else {
					v(li, "EXTINF: duration %q is not a decimal number", d)
				}
			case "EXT-X-BYTERANGE":
				br, ok := parseByteRange(value)
				if !ok {
					v(li, "EXT-X-BYTERANGE: bad value %q", value)
				}
				cur.ByteRange = br
			case "EXT-X-DISCONTINUITY":
				cur.Disc = true
			case "EXT-X-GAP":
				cur.Gap = true
			case "EXT-X-PROGRAM-DATE-TIME":
				cur.PDTRaw = value
				t, ok := parseDate(value)
				if !ok {
					v(li, "EXT-X-PROGRAM-DATE-TIME: bad date %q", value)
				}
				cur.PDT = t
			case "EXT-X-BITRATE":
				if n, ok := intVal(); ok {
					cur.Bitrate = &n
				}
			case "EXT-X-PART":
				p := Part{}
				if a, ok := tag.Attr("URI"); ok {
					p.URI = a.Val
					if a.Val == "" {
						v(li, "EXT-X-PART: empty URI")
					}
				}
				if a, ok := tag.Attr("DURATION"); ok {
					p.DurRaw = a.Val
					if ns, ok := DecimalToNS(a.Val); ok {
						p.DurNS = ns
					}
				}
				if a, ok := tag.Attr("INDEPENDENT"); ok {
					p.Independent = a.Val == "YES"
				}
				if a, ok := tag.Attr("GAP"); ok {
					p.Gap = a.Val == "YES"
				}
				if a, ok := tag.Attr("BYTERANGE"); ok {
					br, ok := parseByteRange(a.Val)
					if !ok {
						v(li, "EXT-X-PART: bad BYTERANGE %q", a.Val)
					}
					p.ByteRange = br
				}
				cur.Parts = append(cur.Parts, p)
			case "EXT-X-PRELOAD-HINT":
				h := &Hint{}
				if a, ok := tag.Attr("TYPE"); ok {
					h.Type = a.Val
				}
				if a, ok := tag.Attr("URI"); ok {
					h.URI = a.Val
					if a.Val == "" {
						v(li, "EXT-X-PRELOAD-HINT: empty URI")
					}
				}
				if a, ok := tag.Attr("BYTERANGE-START"); ok {
					if n, err := strconv.ParseUint(a.Val, 10, 64); err == nil {
						h.RangeStart = &n
					}
				}
				if a, ok := tag.Attr("BYTERANGE-LENGTH"); ok {
					if n, err := strconv.ParseUint(a.Val, 10, 64); err == nil {
						h.RangeLength = &n
					}
				}
				if med.Hint != nil && med.Hint.Type == h.Type {
					v(li, "EXT-X-PRELOAD-HINT: more than one hint of TYPE=%s", h.Type)
				}
				if h.Type == "PART" || med.Hint == nil {
					med.Hint = h
				}
			}
		}
		if mv != nil {
			switch name {
			case "EXT-X-STREAM-INF":
				va := &Variant{}
				if a, ok := tag.Attr("BANDWIDTH"); ok {
					va.Bandwidth, _ = strconv.Atoi(a.Val)
				}
				if a, ok := tag.Attr("AVERAGE-BANDWIDTH"); ok {
					if n, err := strconv.Atoi(a.Val); err == nil {
						va.AvgBandwidth = &n
					}
				}
				if a, ok := tag.Attr("CODECS"); ok {
					va.HasCodecs = true
					va.Codecs = strings.Split(a.Val, ",")
				}
				if a, ok := tag.Attr("RESOLUTION"); ok {
					va.Resolution = a.Val
				}
				if a, ok := tag.Attr("FRAME-RATE"); ok {
					va.FrameRateRaw = a.Val
					if f, err := strconv.ParseFloat(a.Val, 64); err == nil {
						va.FrameRate = &f
					}
				}
				if a, ok := tag.Attr("AUDIO"); ok {
					va.Audio = a.Val
				}
				if a, ok := tag.Attr("VIDEO"); ok {
					va.Video = a.Val
				}
				if a, ok := tag.Attr("SUBTITLES"); ok {
					va.Subtitles = a.Val
				}
				if a, ok := tag.Attr("CLOSED-CAPTIONS"); ok {
					va.ClosedCaptions = a.Val
				}
				pendingVariant = va
				pendingVariantLine = li
			case "EXT-X-MEDIA":
				r := Rendition{}
				get := func(n string) *string {
					if a, ok := tag.Attr(n); ok {
						s := a.Val
						return &s
					}
					return nil
				}
				if p := get("TYPE"); p != nil {
					r.Type = *p
				}
				if p := get("GROUP-ID"); p != nil {
					r.GroupID = *p
				}
				if p := get("NAME"); p != nil {
					r.Name = *p
				}
				if p := get("LANGUAGE"); p != nil {
					r.Language = *p
				}
				if p := get("DEFAULT"); p != nil {
					r.Default = *p == "YES"
				}
				if p := get("AUTOSELECT"); p != nil {
					r.Autoselect = *p == "YES"
				}
				if p := get("FORCED"); p != nil {
					r.Forced = *p == "YES"
				}
				r.URI = get("URI")
				r.Channels = get("CHANNELS")
				r.InstreamID = get("INSTREAM-ID")
				switch r.Type {
				case "CLOSED-CAPTIONS":
					if r.URI != nil {
						v(li, "EXT-X-MEDIA: URI with TYPE=CLOSED-CAPTIONS")
					}
					if r.InstreamID == nil {
						v(li, "EXT-X-MEDIA: INSTREAM-ID missing for CLOSED-CAPTIONS")
					}
				case "SUBTITLES":
					if r.URI == nil {
						v(li, "EXT-X-MEDIA: URI missing for SUBTITLES")
					}
				}
				if r.Type != "CLOSED-CAPTIONS" && r.InstreamID != nil {
					v(li, "EXT-X-MEDIA: INSTREAM-ID with TYPE=%s", r.Type)
				}
				mv.Renditions = append(mv.Renditions, r)
			}
		}
	}
	if pendingVariant != nil {
		pl.Violations = append(pl.Violations, "EXT-X-STREAM-INF at end of playlist without URI line")
	}

	if med != nil {
		med.TrailingParts = cur.Parts
		if haveExtinf {
			pl.Violations = append(pl.Violations, "EXTINF at end of playlist without URI line")
		}
		if !med.HasTarget {
			pl.Violations = append(pl.Violations, "EXT-X-TARGETDURATION missing")
		}
		for i := range med.Segments {
			med.Segments[i].MSN = med.MediaSequence + i
			if med.Skip != nil {
				med.Segments[i].MSN += *med.Skip
			}
		}
		anyPart := len(med.TrailingParts) > 0
		for _, s := range med.Segments {
			if len(s.Parts) > 0 {
				anyPart = true
			}
		}
		if anyPart && med.PartTargetNS == nil {
			pl.Violations = append(pl.Violations, "EXT-X-PART without EXT-X-PART-INF")
		}
	}
	if mv != nil {
		groups := map[string]map[string]bool{}
		for _, r := range mv.Renditions {
			if groups[r.Type] == nil {
				groups[r.Type] = map[string]bool{}
			}
			groups[r.Type][r.GroupID] = true
		}
		for _, va := range mv.Variants {
			if va.Audio != "" && !groups["AUDIO"][va.Audio] {
				pl.Violations = append(pl.Violations, fmt.Sprintf("variant names AUDIO group %q that does not exist", va.Audio))
			}
			if va.Video != "" && !groups["VIDEO"][va.Video] {
				pl.Violations = append(pl.Violations, fmt.Sprintf("variant names VIDEO group %q that does not exist", va.Video))
			}
			if va.Subtitles != "" && !groups["SUBTITLES"][va.Subtitles] {
				pl.Violations = append(pl.Violations, fmt.Sprintf("variant names SUBTITLES group %q that does not exist", va.Subtitles))
			}
		}
	}
	return pl
}
