// Package clirun runs a real gohlslib.Client against an in-process transport and records
// everything observable: tracks, delivered units, absolute times, the Wait() result and the
// goroutines the client leaves behind.
package clirun

import (
	"fmt"
	"net/http"
	"regexp"
	"runtime"
	"strings"
	"sync"
	"time"

	"github.com/bluenviron/gohlslib/v2"
	"github.com/bluenviron/gohlslib/v2/pkg/codecs"
	"verif/internal/hx"
	"verif/internal/media"
)

// Unit is one delivered access unit.
type Unit struct {
	Track  int
	PTS    int64
	DTS    int64
	HasDTS bool
	Data   [][]byte
	Abs    time.Time
	HasAbs bool
	Stamp  int64
}

// Run is one client execution.
type Run struct {
	C          *gohlslib.Client
	mu         sync.Mutex
	Tracks     []*gohlslib.Track
	TracksAt   int64
	Units      []Unit
	PerTrack   [][]int  // indices into Units
	Callbacks  []string // log of callback kinds with stamps (compact)
	LastCB     int64
	DecodeErrs []string
	Downloads  []string

	WaitErr    error
	WaitStamp  int64
	WaitYield  bool
	SecondRecv string // "" none, "value", "closed"

	OnTracksErr  error                 // returned from OnTracks when set
	OnTracksHook func(r *Run)          // called inside OnTracks
	OnUnitHook   func(r *Run, u *Unit) // called inside every OnData
}

// KindOf maps a gohlslib codec to a media kind (-1 unknown / nil).
func KindOf(c codecs.Codec) media.Kind {
	switch c.(type) {
	case *codecs.H264:
		return media.H264
	case *codecs.H265:
		return media.H265
	case *codecs.AV1:
		return media.AV1
	case *codecs.VP9:
		return media.VP9
	case *codecs.MPEG4Audio:
		return media.AAC
	case *codecs.Opus:
		return media.Opus
	}
	return -1
}

func (r *Run) cb(kind string) int64 {
	st := hx.Stamp()
	r.LastCB = st
	if len(r.Callbacks) < 64 {
		r.Callbacks = append(r.Callbacks, fmt.Sprintf("%s@%d", kind, st))
	}
	return st
}

// New prepares a client (not started).
func New(uri string, hc *http.Client) *Run {
	return NewOpts(uri, hc, false)
}

// NewOpts: with bare set, the optional callbacks (OnDownload*, OnDecodeError) are left nil, as
// most applications do: the client installs its own defaults in Start.
func NewOpts(uri string, hc *http.Client, bare bool) *Run {
	r := &Run{}
	c := &gohlslib.Client{URI: uri, HTTPClient: hc}
	r.C = c
	defer func() {
		if bare {
			c.OnDownloadPrimaryPlaylist, c.OnDownloadStreamPlaylist, c.OnDownloadSegment, c.OnDownloadPart, c.OnDecodeError = nil, nil, nil, nil, nil
		}
	}()
	c.OnDownloadPrimaryPlaylist = func(u string) {
		r.mu.Lock()
		r.cb("dl-primary")
		r.Downloads = append(r.Downloads, "P "+u)
		r.mu.Unlock()
	}
	c.OnDownloadStreamPlaylist = func(u string) {
		r.mu.Lock()
		r.cb("dl-stream")
		r.Downloads = append(r.Downloads, "S "+u)
		r.mu.Unlock()
	}
	c.OnDownloadSegment = func(u string) { r.mu.Lock(); r.cb("dl-seg"); r.Downloads = append(r.Downloads, "G "+u); r.mu.Unlock() }
	c.OnDownloadPart = func(u string) { r.mu.Lock(); r.cb("dl-part"); r.Downloads = append(r.Downloads, "H "+u); r.mu.Unlock() }
	c.OnDecodeError = func(err error) {
		r.mu.Lock()
		r.cb("decode-error")
		r.DecodeErrs = append(r.DecodeErrs, err.Error())
		r.mu.Unlock()
	}
	c.OnTracks = func(tracks []*gohlslib.Track) error {
		r.mu.Lock()
		r.TracksAt = r.cb("tracks")
		r.Tracks = tracks
		r.PerTrack = make([][]int, len(tracks))
		r.mu.Unlock()
		for i, t := range tracks {
			i, t := i, t
			rec := func(pts, dts int64, hasDTS bool, data [][]byte) {
				u := Unit{Track: i, PTS: pts, DTS: dts, HasDTS: hasDTS, Data: data}
				u.Abs, u.HasAbs = c.AbsoluteTime(t)
				r.mu.Lock()
				u.Stamp = r.cb("data")
				r.Units = append(r.Units, u)
				r.PerTrack[i] = append(r.PerTrack[i], len(r.Units)-1)
				hook := r.OnUnitHook
				r.mu.Unlock()
				if hook != nil {
					hook(r, &u)
				}
			}
			switch t.Codec.(type) {
			case *codecs.H264, *codecs.H265:
				c.OnDataH26x(t, func(pts, dts int64, au [][]byte) { rec(pts, dts, true, au) })
			case *codecs.AV1:
				c.OnDataAV1(t, func(pts int64, tu [][]byte) { rec(pts, 0, false, tu) })
			case *codecs.VP9:
				c.OnDataVP9(t, func(pts int64, f []byte) { rec(pts, 0, false, [][]byte{f}) })
			case *codecs.MPEG4Audio:
				c.OnDataMPEG4Audio(t, func(pts int64, aus [][]byte) { rec(pts, 0, false, aus) })
			case *codecs.Opus:
				c.OnDataOpus(t, func(pts int64, p [][]byte) { rec(pts, 0, false, p) })
			}
		}
		if r.OnTracksHook != nil {
			r.OnTracksHook(r)
		}
		return r.OnTracksErr
	}
	return r
}

// WaitResult waits for the value of Wait() (bounded by a generous watchdog) and then checks
// that no second value follows.
func (r *Run) WaitResult(watchdog time.Duration) bool {
	select {
	case err, ok := <-r.C.Wait():
		r.WaitStamp = hx.Stamp()
		r.WaitYield = true
		if !ok {
			r.SecondRecv = "closed-first"
		}
		r.WaitErr = err
	case <-time.After(watchdog):
		return false
	}
	select {
	case _, ok := <-r.C.Wait():
		if ok {
			r.SecondRecv = "value"
		} else {
			r.SecondRecv = "closed"
		}
	case <-time.After(30 * time.Millisecond):
	}
	return true
}

// WaitEndOrWedge waits for the value of Wait(). progress() is a counter of externally visible
// events (requests served + units delivered). When the counter has not moved for idleSlices x
// 100 ms and every client goroutine is parked on a channel, a select or a lock (none running,
// sleeping or doing I/O) the client is deadlocked: nothing but Close can make it move again. That is
// reported as wedged together with the goroutine census. A stall in which some client goroutine is
// still runnable, sleeping or in I/O, and the overall bound, are inconclusive (ended == wedged == false).
func (r *Run) WaitEndOrWedge(progress func() int, idleSlices int, bound time.Duration) (ended, wedged bool, census []string) {
	deadline := time.Now().Add(bound)
	last, idle := progress(), 0
	for time.Now().Before(deadline) {
		if r.WaitResult(100 * time.Millisecond) {
			return true, false, nil
		}
		if cur := progress(); cur != last {
			last, idle = cur, 0
			continue
		}
		idle++
		if idle >= idleSlices {
			cs := Census()
			allParked := len(cs) > 0
			for _, l := range cs {
				if !(strings.Contains(l, "[chan send") || strings.Contains(l, "[chan receive") || strings.Contains(l, "[select") ||
					strings.Contains(l, "[semacquire") || strings.Contains(l, "[sync.")) {
					allParked = false
				}
			}
			if allParked && progress() == last {
				return false, true, cs
			}
			idle = idleSlices / 2
		}
	}
	return false, false, nil
}

// CloseWithin calls Close from a goroutine of its own and reports whether it returned in time.
func (r *Run) CloseWithin(d time.Duration) bool {
	done := make(chan struct{})
	go func() { r.C.Close(); close(done) }()
	select {
	case <-done:
		return true
	case <-time.After(d):
		return false
	}
}

// Snapshot returns a consistent copy of the delivered units.
func (r *Run) Snapshot() ([]*gohlslib.Track, []Unit, [][]int) {
	r.mu.Lock()
	defer r.mu.Unlock()
	us := append([]Unit{}, r.Units...)
	pt := make([][]int, len(r.PerTrack))
	for i := range pt {
		pt[i] = append([]int{}, r.PerTrack[i]...)
	}
	return r.Tracks, us, pt
}

// Delivered returns the number of delivered units.
func (r *Run) Delivered() int {
	r.mu.Lock()
	defer r.mu.Unlock()
	return len(r.Units)
}

// CallbackAfter reports whether a callback was logged after the given stamp.
func (r *Run) CallbackAfter(stamp int64) (bool, string) {
	r.mu.Lock()
	defer r.mu.Unlock()
	if r.LastCB > stamp {
		last := ""
		if len(r.Callbacks) > 0 {
			last = r.Callbacks[len(r.Callbacks)-1]
		}
		return true, last
	}
	return false, ""
}

var reClientFrame = regexp.MustCompile(`gohlslib/v2\.\(\*[cC]lient[A-Za-z]*\)\.[A-Za-z0-9_.]+`)

// Census returns the gohlslib client goroutines currently alive (one line per goroutine).
func Census() []string {
	buf := make([]byte, 1<<20)
	for {
		n := runtime.Stack(buf, true)
		if n < len(buf) {
			buf = buf[:n]
			break
		}
		buf = make([]byte, len(buf)*2)
	}
	var out []string
	for _, blk := range strings.Split(string(buf), "\n\n") {
		fr := reClientFrame.FindAllString(blk, 3)
		if len(fr) == 0 {
			continue
		}
		hdr := blk
		if i := strings.IndexByte(hdr, '\n'); i >= 0 {
			hdr = hdr[:i]
		}
		out = append(out, hdr+" "+strings.Join(fr, " <- "))
	}
	return out
}

// CensusSettled polls until no client goroutine is left or the bound is reached.
func CensusSettled(bound time.Duration) []string {
	deadline := time.Now().Add(bound)
	for {
		c := Census()
		if len(c) == 0 || time.Now().After(deadline) {
			return c
		}
		time.Sleep(5 * time.Millisecond)
	}
}
