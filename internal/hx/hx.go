// Package hx issues in-process HTTP requests to a handler (Muxer.Handle or a stub origin)
// and dispatches the verif hooks of gohlslib to per-request / per-object observers.
package hx

import (
	"bytes"
	"fmt"
	"net/http"
	"net/url"
	"runtime/debug"
	"sync"
	"sync/atomic"
	"time"

	"github.com/bluenviron/gohlslib/v2"
	"github.com/bluenviron/gohlslib/v2/pkg/storage"
)

// Resp is the outcome of a request.
type Resp struct {
	Status     int // 0 when the handler never called WriteHeader nor Write
	Header     http.Header
	Body       []byte
	Panic      string
	PanicStack string
}

// OK reports status 200.
func (r *Resp) OK() bool { return r != nil && r.Status == http.StatusOK }

type recorder struct {
	h      http.Header
	status int
	buf    bytes.Buffer
	gate   <-chan struct{} // when set, the first Write blocks until the gate is closed (slow client)
	gated  bool
	atGate chan struct{} // closed when the handler has reached the gate
}

func (w *recorder) Header() http.Header { return w.h }
func (w *recorder) WriteHeader(s int) {
	if w.status == 0 {
		w.status = s
	}
	// a slow client stalls the response as early as its status line
	if w.gate != nil && !w.gated && s == http.StatusOK {
		w.gated = true
		if w.atGate != nil {
			close(w.atGate)
		}
		<-w.gate
	}
}
func (w *recorder) Write(p []byte) (int, error) {
	if w.status == 0 {
		w.status = http.StatusOK
	}
	if w.gate != nil && !w.gated {
		w.gated = true
		if w.atGate != nil {
			close(w.atGate)
		}
		<-w.gate
	}
	return w.buf.Write(p)
}

// State is the state of a request as seen by Wait.
type State int

// request states.
const (
	Done State = iota
	Parked
	Timeout
)

// Req is an in-flight request.
type Req struct {
	AtGate  chan struct{} // StartGated: closed when the handler blocks in its first body Write
	URL     string
	R       *http.Request
	Resp    *Resp
	CallSeq int64 // global stamp at call
	RetSeq  int64 // global stamp at return

	mu      sync.Mutex
	cond    *sync.Cond
	done    bool
	parks   int
	wakes   int
	lookups int
	onEvent func(point string)
}

var seq atomic.Int64

// Stamp returns the next value of the global logical clock.
func Stamp() int64 { return seq.Add(1) }

var (
	reqs sync.Map // *http.Request -> *Req
	keys sync.Map // any -> func(point string, arg any)
)

var installOnce sync.Once

// Install installs the hook dispatchers. Must be called before any muxer is used.
func Install() {
	installOnce.Do(func() {
		gohlslib.VerifHook = dispatch
		storage.VerifHook = func(point string, key any) {
			if f := storageHook.Load(); f != nil {
				(*f)(point, key)
			}
		}
	})
}

var storageHook atomic.Pointer[func(point string, key any)]

// SetStorageHook sets the observer of storage hook points (nil to clear).
func SetStorageHook(f func(point string, key any)) {
	if f == nil {
		storageHook.Store(nil)
		return
	}
	storageHook.Store(&f)
}

func dispatch(point string, key any, arg any) {
	if r, ok := arg.(*http.Request); ok && r != nil {
		if v, ok := reqs.Load(r); ok {
			v.(*Req).event(point)
		}
	}
	if key != nil {
		if v, ok := keys.Load(key); ok {
			v.(func(string, any))(point, arg)
		}
	}
}

// OnKey registers an observer for hook events carrying the given key.
func OnKey(key any, f func(point string, arg any)) { keys.Store(key, f) }

// OffKey removes an observer.
func OffKey(key any) { keys.Delete(key) }

func (q *Req) event(point string) {
	q.mu.Lock()
	switch point {
	case "wait.park":
		q.parks++
	case "wait.wake":
		q.wakes++
	case "serve.lookup":
		q.lookups++
	}
	f := q.onEvent
	q.cond.Broadcast()
	q.mu.Unlock()
	if f != nil {
		f(point)
	}
}

// Parks returns the number of times the request parked so far.
func (q *Req) Parks() int {
	q.mu.Lock()
	defer q.mu.Unlock()
	return q.parks
}

// Wakes returns the number of times the request woke from a park.
func (q *Req) Wakes() int {
	q.mu.Lock()
	defer q.mu.Unlock()
	return q.wakes
}

// IsDone reports completion.
func (q *Req) IsDone() bool {
	q.mu.Lock()
	defer q.mu.Unlock()
	return q.done
}

// IsParked reports whether the last event of the request is a park.
func (q *Req) IsParked() bool {
	q.mu.Lock()
	defer q.mu.Unlock()
	return !q.done && q.parks > q.wakes
}

// Wait blocks until the request completed, or parked more than prevParks times, or the
// (generous, wall-clock) watchdog expired.
func (q *Req) Wait(prevParks int, watchdog time.Duration) State {
	deadline := time.Now().Add(watchdog)
	timer := time.AfterFunc(watchdog, func() {
		q.mu.Lock()
		q.cond.Broadcast()
		q.mu.Unlock()
	})
	defer timer.Stop()
	q.mu.Lock()
	defer q.mu.Unlock()
	for {
		if q.done {
			return Done
		}
		if q.parks > prevParks && q.parks > q.wakes {
			return Parked
		}
		if !time.Now().Before(deadline) {
			return Timeout
		}
		q.cond.Wait()
	}
}

// Handler is anything that handles requests.
type Handler func(w http.ResponseWriter, r *http.Request)

// Start issues a GET in its own goroutine. onEvent (optional) is invoked for hook events of
// this request; it runs with internal gohlslib locks held and must not block.
func Start(h Handler, rawURL string, onEvent func(point string)) *Req {
	return StartGated(h, rawURL, onEvent, nil)
}

// StartGated is Start with a slow client: the first body Write of the handler blocks until gate
// is closed.
func StartGated(h Handler, rawURL string, onEvent func(point string), gate <-chan struct{}) *Req {
	u, err := url.Parse("http://mux.local/" + rawURL)
	if err != nil {
		panic(err)
	}
	r := &http.Request{Method: http.MethodGet, URL: u, Header: http.Header{}}
	q := &Req{URL: rawURL, R: r, onEvent: onEvent, AtGate: make(chan struct{})}
	q.cond = sync.NewCond(&q.mu)
	reqs.Store(r, q)
	q.CallSeq = Stamp()
	go func() {
		rec := &recorder{h: http.Header{}, gate: gate, atGate: q.AtGate}
		resp := &Resp{}
		defer func() {
			if p := recover(); p != nil {
				resp.Panic = fmt.Sprint(p)
				resp.PanicStack = string(debug.Stack())
			}
			resp.Status = rec.status
			resp.Header = rec.h
			resp.Body = rec.buf.Bytes()
			reqs.Delete(r)
			q.mu.Lock()
			q.Resp = resp
			q.RetSeq = Stamp()
			q.done = true
			q.cond.Broadcast()
			q.mu.Unlock()
		}()
		h(rec, r)
	}()
	return q
}

// Get issues a GET and waits for completion or the first park.
func Get(h Handler, rawURL string, watchdog time.Duration) (*Req, State) {
	q := Start(h, rawURL, nil)
	return q, q.Wait(0, watchdog)
}

// SetReqEventHook installs (or replaces) the per-request hook observer. The observer runs in
// the request's goroutine, possibly with gohlslib locks held.
func SetReqEventHook(q *Req, f func(point string)) {
	q.mu.Lock()
	q.onEvent = f
	q.mu.Unlock()
}
