// Package plfuzz holds the native fuzz targets of the playlist decoders (C15).
package plfuzz
