package plfuzz

import (
	"os"
	"path/filepath"
	"testing"

	"github.com/bluenviron/gohlslib/v2/pkg/playlist"
	"verif/internal/plx"
)

// seedFromRepo adds the repository's own fuzz corpora and a few encoder outputs as seeds.
func seedFromRepo(f *testing.F, names ...string) {
	for _, n := range names {
		dir := filepath.Join("/repo/pkg/playlist/testdata/fuzz", n)
		ents, err := os.ReadDir(dir)
		if err != nil {
			continue
		}
		for _, e := range ents {
			b, err := os.ReadFile(filepath.Join(dir, e.Name()))
			if err == nil {
				f.Add(b) // the corpus file format itself is just more text to mutate
			}
		}
	}
	f.Add([]byte("#EXTM3U\n#EXT-X-VERSION:9\n#EXT-X-TARGETDURATION:2\n#EXT-X-SERVER-CONTROL:CAN-BLOCK-RELOAD=YES,PART-HOLD-BACK=0.5,CAN-SKIP-UNTIL=12\n" +
		"#EXT-X-PART-INF:PART-TARGET=0.2\n#EXT-X-MEDIA-SEQUENCE:3\n#EXT-X-MAP:URI=\"init.mp4\"\n#EXT-X-PROGRAM-DATE-TIME:2020-01-01T00:00:00.000Z\n" +
		"#EXT-X-PART:DURATION=0.2,URI=\"p0.mp4\",INDEPENDENT=YES\n#EXTINF:2.00000,\nseg3.mp4\n#EXT-X-PART:DURATION=0.2,URI=\"p1.mp4\"\n#EXT-X-PRELOAD-HINT:TYPE=PART,URI=\"p2.mp4\"\n"))
	f.Add([]byte("#EXTM3U\n#EXT-X-VERSION:9\n#EXT-X-INDEPENDENT-SEGMENTS\n\n#EXT-X-MEDIA:TYPE=AUDIO,GROUP-ID=\"audio\",NAME=\"a\",DEFAULT=YES,URI=\"a.m3u8\"\n\n" +
		"#EXT-X-STREAM-INF:BANDWIDTH=1000,AVERAGE-BANDWIDTH=900,CODECS=\"avc1.42c028,mp4a.40.2\",RESOLUTION=1920x1080,FRAME-RATE=30.000,AUDIO=\"audio\"\nv.m3u8\n"))
}

func check(t *testing.T, pl playlist.Playlist) {
	for _, p := range plx.CheckDecoded(pl) {
		t.Errorf("post-condition: %s", p)
	}
}

func FuzzUnmarshal(f *testing.F) {
	seedFromRepo(f, "FuzzPlaylistUnmarshal", "FuzzMediaUnmarshal", "FuzzMultivariantUnmarshal")
	f.Fuzz(func(t *testing.T, b []byte) {
		pl, err := playlist.Unmarshal(b)
		if err != nil {
			return
		}
		check(t, pl)
	})
}

func FuzzMediaUnmarshal(f *testing.F) {
	seedFromRepo(f, "FuzzMediaUnmarshal", "FuzzPlaylistUnmarshal")
	f.Fuzz(func(t *testing.T, b []byte) {
		m := &playlist.Media{}
		if err := m.Unmarshal(b); err != nil {
			return
		}
		check(t, m)
	})
}

func FuzzMultivariantUnmarshal(f *testing.F) {
	seedFromRepo(f, "FuzzMultivariantUnmarshal", "FuzzPlaylistUnmarshal")
	f.Fuzz(func(t *testing.T, b []byte) {
		m := &playlist.Multivariant{}
		if err := m.Unmarshal(b); err != nil {
			return
		}
		check(t, m)
	})
}
