package oracle

import (
	"bytes"
	"fmt"
	"regexp"
	"sort"
	"strconv"

	"github.com/bluenviron/mediacommon/v2/pkg/formats/fmp4"
	"verif/internal/media"
	"verif/internal/muxrun"
)

// expUnit is one expected container unit (fMP4 sample or MPEG-TS PES) of a track.
type expUnit struct {
	Idx   int // first expected-sample index
	N     int
	W     int // write index
	PTS   int64
	DTS   int64
	RA    bool
	Param int
	AUDs  int
}

func expUnits(c *media.Case, track int) []expUnit {
	ss := c.Samples(track)
	var out []expUnit
	tsAudio := c.Cfg.Variant == media.VarTS && !c.Tracks[track].Kind.IsVideo()
	for i := 0; i < len(ss); i++ {
		s := ss[i]
		u := expUnit{Idx: i, N: 1, W: s.WriteIdx, PTS: s.PTS, DTS: s.DTS, RA: s.RA, Param: s.ParamIdx, AUDs: s.AUDs}
		if tsAudio {
			for i+1 < len(ss) && ss[i+1].WriteIdx == s.WriteIdx {
				i++
				u.N++
			}
		}
		out = append(out, u)
	}
	return out
}

type segUnits struct {
	MSN   int
	Name  string
	Units []muxrun.DecSample
	Frags int
	U     *muxrun.URIRec
}

// trackSegs returns the decoded units of a track for every published segment, in MSN order.
func (x *Ctx) trackSegs(track int, views map[string]*StreamView) []segUnits {
	sv := views[x.H.StreamOf[track]]
	var out []segUnits
	for _, msn := range sv.MSNs {
		s := sv.Segs[msn]
		if s.Gap || s.U == nil {
			continue
		}
		su := segUnits{MSN: msn, Name: s.Name, U: s.U}
		if x.C.Cfg.Variant == media.VarTS {
			for _, d := range s.U.TSSamples {
				if d.Track == track {
					su.Units = append(su.Units, d)
				}
			}
		} else {
			su.Frags = len(s.U.Frags)
			for _, f := range s.U.Frags {
				for _, t := range f.Tracks {
					for _, d := range t.Samples {
						if d.Track == track {
							su.Units = append(su.Units, d)
						}
					}
				}
			}
		}
		out = append(out, su)
	}
	return out
}

var rePartNo = regexp.MustCompile(`_part([0-9]+)\.mp4$`)
var reSegNo = regexp.MustCompile(`_seg([0-9]+)\.(mp4|ts)$`)

func partNo(name string) int {
	m := rePartNo.FindStringSubmatch(name)
	if m == nil {
		return -1
	}
	n, _ := strconv.Atoi(m[1])
	return n
}

func segNo(name string) int {
	m := reSegNo.FindStringSubmatch(name)
	if m == nil {
		return -1
	}
	n, _ := strconv.Atoi(m[1])
	return n
}

// partsOf returns the part URIs of a stream sorted by part number.
func (x *Ctx) partsOf(stream string) []*muxrun.URIRec {
	var out []*muxrun.URIRec
	for _, n := range x.H.URIOrder {
		u := x.H.URIs[n]
		if u.Kind == "part" && u.Stream == stream {
			out = append(out, u)
		}
	}
	sort.Slice(out, func(i, j int) bool { return partNo(out[i].Name) < partNo(out[j].Name) })
	return out
}

func mod33(v int64) int64 { return ((v % (1 << 33)) + (1 << 33)) % (1 << 33) }

// checkUnit compares one decoded unit with the expected one.
func (x *Ctx) checkUnit(track int, d muxrun.DecSample, e expUnit, next *expUnit, where string) {
	c := x.C
	ts := &c.Tracks[track]
	if !d.BytesOK {
		x.fail("bytes", "bytes/"+ts.Kind.String(), "%s: track %d unit %d payload differs from what was written", where, track, e.Idx)
	}
	if c.Cfg.Variant != media.VarTS && ts.Kind == media.H264 {
		// (the payload comparison leaves access unit delimiters out because the MPEG-TS writer puts its
		// own in; an fMP4 sample is the access unit as written, delimiter included)
		x.Stats.Add("C01.h264_delimiters_compared", 1)
		if d.AUDs != e.AUDs {
			x.fail("bytes", "bytes/H264-delimiter", "%s: track %d unit %d was written with %d access unit delimiter(s), the stored sample has %d", where, track, e.Idx, e.AUDs, d.AUDs)
		}
	}
	if c.Cfg.Variant == media.VarTS {
		if d.NUnits != e.N && !ts.Kind.IsVideo() {
			x.fail("bytes", "ts-aus", "%s: track %d PES %d carries %d access units, written %d", where, track, e.Idx, d.NUnits, e.N)
		}
		// exact rational expected value: pts*90000/rate
		check := func(name string, got, want int64) {
			// (split so that wall-clock sized time stamps do not overflow the product)
			den := int64(ts.ClockRate)
			q, r := want/den, want%den
			if r < 0 {
				q, r = q-1, r+den
			}
			lo := q*90000 + r*90000/den
			hi := lo
			if r*90000%den != 0 {
				hi = lo + 1
			}
			if got != mod33(lo) && got != mod33(hi) {
				x.fail("ts-time", "ts-time/"+name, "%s: track %d unit %d %s=%d, expected %d (written %d @%d Hz)", where, track, e.Idx, name, got, mod33(lo), want, ts.ClockRate)
			}
		}
		check("pts", d.PTS, e.PTS)
		check("dts", d.DTS, e.DTS)
		return
	}
	if ts.ClockRate != ts.NaturalRate() {
		return
	}
	off := int64(10 * ts.ClockRate)
	if d.DTS != e.DTS+off {
		x.fail("dts", "dts/"+ts.Kind.String(), "%s: track %d unit %d decode time %d, expected %d+%d", where, track, e.Idx, d.DTS, e.DTS, off)
	}
	if int64(d.PTSOff) != e.PTS-e.DTS {
		x.fail("ptsoff", "ptsoff/"+ts.Kind.String(), "%s: track %d unit %d presentation offset %d, expected %d", where, track, e.Idx, d.PTSOff, e.PTS-e.DTS)
	}
	if next != nil && int64(d.Dur) != next.DTS-e.DTS {
		x.fail("dur", "dur/"+ts.Kind.String(), "%s: track %d unit %d duration %d, expected %d", where, track, e.Idx, d.Dur, next.DTS-e.DTS)
	}
	wantSync := e.RA || !ts.Kind.IsVideo()
	if d.Sync != wantSync {
		x.fail("sync", "sync/"+ts.Kind.String(), "%s: track %d unit %d sync=%v, written random-access=%v", where, track, e.Idx, d.Sync, e.RA)
	}
}

// C01 — every accepted unit preserved.
func C01(x *Ctx) {
	x.prop = "C01"
	crossAvailability(x)
	c, h := x.C, x.H
	if h.WriteErrs > 0 {
		x.Stats.Add("C01.skipped_write_error", 1)
		return
	}
	views := x.Views()
	wR := lastSegRotationWrite(h)
	if wR < 0 {
		x.Stats.Add("C01.no_segment", 1)
		neverStarted(x)
		return
	}
	for track := range c.Tracks {
		sv := views[h.StreamOf[track]]
		if len(sv.MSNs) == 0 {
			x.Stats.Add("C01.no_playlist", 1)
			continue
		}
		exp := expUnits(c, track)
		segs := x.trackSegs(track, views)
		var dec []muxrun.DecSample
		for _, s := range segs {
			if s.U.DecodeErr != "" {
				x.fail("decode", "decode", "segment %s does not decode: %s", s.Name, s.U.DecodeErr)
			}
			if s.U.TS != nil && len(s.U.TS.DecodeErrors) > 0 {
				x.fail("decode", "decode-ts", "segment %s: %v", s.Name, s.U.TS.DecodeErrors)
			}
			dec = append(dec, s.Units...)
		}
		start, ok := startIndex(c, track)
		// start/end are sample indices; map to unit indices
		unitOfSample := map[int]int{}
		for ui, e := range exp {
			for k := 0; k < e.N; k++ {
				unitOfSample[e.Idx+k] = ui
			}
		}
		// expected end
		lead := c.LeadingTrack()
		endUnit := -1 // inclusive unit index
		if track == lead {
			// the segment rotation happens while the unit that opens the next segment is being
			// written: the published run ends just before a unit of write wR (a multi-AU audio
			// write may be cut at any of its access units)
			for ui, e := range exp {
				if e.W == wR {
					endUnit = ui - 1
					break
				}
			}
			if len(dec) > 0 {
				if ui, ok := unitOfSample[dec[len(dec)-1].Idx]; ok && ui+1 < len(exp) && exp[ui+1].W == wR {
					endUnit = ui
				}
			}
		} else {
			n := 0
			for _, e := range exp {
				if e.W < wR {
					n++
				}
			}
			if c.Cfg.Variant == media.VarTS {
				endUnit = n - 1
			} else {
				endUnit = n - 2
			}
		}
		if !ok || endUnit < unitOfSample[start] {
			if len(dec) != 0 {
				x.fail("invented", "start", "track %d: %d units published although none is expected (start=%d ok=%v endUnit=%d)", track, len(dec), start, ok, endUnit)
			}
			continue
		}
		su := unitOfSample[start]
		want := exp[su : endUnit+1]
		x.Stats.Add("C01.units_expected", len(want))
		x.Stats.Add("C01.units_decoded", len(dec))
		x.Stats.Add("C01.segments_decoded", len(segs))
		if len(dec) == 0 {
			x.fail("lost", "all-lost", "track %d: nothing published, expected units %d..%d", track, want[0].Idx, want[len(want)-1].Idx)
			continue
		}
		if dec[0].Idx != want[0].Idx {
			x.fail("start", "start/"+c.Tracks[track].Kind.String(), "track %d (%s): published run begins at unit %d, expected start point %d", track, c.Tracks[track].Kind, dec[0].Idx, want[0].Idx)
		}
		if dec[len(dec)-1].Idx != want[len(want)-1].Idx {
			x.fail("end", "end", "track %d: published run ends at unit %d, expected %d (last segment rotation during write %d)", track, dec[len(dec)-1].Idx, want[len(want)-1].Idx, wR)
		}
		// a segment that was published and left the window again within one Write (a multi-unit audio
		// Write that rotates more segments than SegmentCount) is in no playlist a sequential observer
		// can fetch: between two observed segments whose MSNs are not consecutive, and whose later one
		// was first listed after such a Write, the run has an unobservable hole
		msnOf := map[int]int{}
		for _, sg := range segs {
			for _, u := range sg.Units {
				msnOf[u.Idx] = sg.MSN
			}
		}
		rotationsIn := map[int]int{}
		for _, r := range h.Rounds {
			for _, k := range r.Rotated {
				if k == "segments" {
					rotationsIn[r.N]++
				}
			}
		}
		unobservableHole := func(prevIdx, idx int) bool {
			a, ok1 := msnOf[prevIdx]
			b, ok2 := msnOf[idx]
			if !ok1 || !ok2 || b <= a+1 {
				return false
			}
			return rotationsIn[sv.Segs[b].FirstRound] > c.Cfg.SegmentCount
		}
		// contiguity and per-unit checks
		for i, d := range dec {
			if d.Track != track || d.Idx < 0 {
				x.fail("invented", "invented", "track %d: decoded unit #%d is not one of the written units (tag track=%d idx=%d)", track, i, d.Track, d.Idx)
				continue
			}
			if i > 0 {
				prev := dec[i-1]
				pe := exp[unitOfSample[prev.Idx]]
				if d.Idx != prev.Idx+pe.N && d.Idx > prev.Idx && unobservableHole(prev.Idx, d.Idx) {
					x.Stats.Add("C01.segments_not_observable", 1)
				} else if d.Idx != prev.Idx+pe.N {
					kind := "gap"
					if d.Idx <= prev.Idx {
						kind = "dup-or-reorder"
					}
					x.fail(kind, kind, "track %d: unit %d follows unit %d (expected %d)", track, d.Idx, prev.Idx, prev.Idx+pe.N)
				}
			}
			ui, found := unitOfSample[d.Idx]
			if !found || exp[ui].Idx != d.Idx {
				x.fail("invented", "misaligned", "track %d: decoded unit with tag %d does not start an expected unit", track, d.Idx)
				continue
			}
			var next *expUnit
			if ui+1 < len(exp) {
				next = &exp[ui+1]
			}
			x.checkUnit(track, d, exp[ui], next, "segment")
		}
		// contiguous base times across fragments (fMP4)
		if c.Cfg.Variant != media.VarTS {
			var prevEnd int64 = -1
			prevMSN := -1
			for _, s := range segs {
				if prevMSN >= 0 && s.MSN > prevMSN+1 && rotationsIn[sv.Segs[s.MSN].FirstRound] > c.Cfg.SegmentCount {
					prevEnd = -1 // (see above: the segments in between were never observable)
				}
				prevMSN = s.MSN
				for _, f := range s.U.Frags {
					for _, t := range f.Tracks {
						if len(t.Samples) == 0 || t.Samples[0].Track != track {
							continue
						}
						if prevEnd >= 0 && int64(t.Base) != prevEnd {
							x.fail("base", "base", "track %d: fragment %d of %s has base time %d, previous fragment ended at %d", track, f.Seq, s.Name, t.Base, prevEnd)
						}
						e := int64(t.Base)
						for _, d := range t.Samples {
							e += int64(d.Dur)
						}
						prevEnd = e
					}
				}
			}
		}
		// Low-Latency: the parts
		if c.Cfg.Variant == media.VarLL {
			parts := x.partsOf(h.StreamOf[track])
			var pdec []muxrun.DecSample
			for _, p := range parts {
				if p.DecodeErr != "" {
					x.fail("decode", "decode-part", "part %s does not decode: %s", p.Name, p.DecodeErr)
				}
				for _, f := range p.Frags {
					for _, t := range f.Tracks {
						for _, d := range t.Samples {
							if d.Track == track {
								pdec = append(pdec, d)
							}
						}
					}
				}
			}
			x.Stats.Add("C01.part_units_decoded", len(pdec))
			x.Stats.Add("C01.parts_decoded", len(parts))
			// parts are listed under the last two segments and the open one only: when one Write call
			// (several access units) rotated more than one segment, parts of the segments in between
			// were never listed in any playlist that could be observed, so the run of decoded parts
			// need not be complete
			multiRot := false
			for _, r := range h.Rounds {
				n := 0
				for _, k := range r.Rotated {
					if k == "segments" {
						n++
					}
				}
				if n >= 2 {
					multiRot = true
				}
			}
			if multiRot {
				x.Stats.Add("C01.parts_not_fully_observable", 1)
				for _, d := range pdec {
					if ui, ok := unitOfSample[d.Idx]; ok && d.Idx >= 0 {
						var next *expUnit
						if ui+1 < len(exp) {
							next = &exp[ui+1]
						}
						x.checkUnit(track, d, exp[ui], next, "part")
					}
				}
			} else if len(pdec) > 0 {
				if pdec[0].Idx != want[0].Idx {
					x.fail("start", "part-start", "track %d: parts begin at unit %d, expected %d", track, pdec[0].Idx, want[0].Idx)
				}
				if pdec[len(pdec)-1].Idx < want[len(want)-1].Idx {
					x.fail("end", "part-end", "track %d: parts end at unit %d, segments need %d", track, pdec[len(pdec)-1].Idx, want[len(want)-1].Idx)
				}
				for i, d := range pdec {
					if i > 0 && d.Idx != pdec[i-1].Idx+1 {
						x.fail("gap", "part-gap", "track %d: in parts unit %d follows unit %d", track, d.Idx, pdec[i-1].Idx)
					}
					if ui, ok := unitOfSample[d.Idx]; ok && d.Idx >= 0 {
						var next *expUnit
						if ui+1 < len(exp) {
							next = &exp[ui+1]
						}
						x.checkUnit(track, d, exp[ui], next, "part")
					}
				}
			} else if len(want) > 0 && len(parts) > 0 {
				x.fail("lost", "part-lost", "track %d: parts carry no unit", track)
			}
		}
	}
}

type paramState struct {
	cur media.Params
}

func paramsEqual(k media.Kind, a, b media.Params) bool {
	switch k {
	case media.H264:
		return bytes.Equal(a.SPS, b.SPS) && bytes.Equal(a.PPS, b.PPS)
	case media.H265:
		return bytes.Equal(a.SPS, b.SPS) && bytes.Equal(a.PPS, b.PPS) && bytes.Equal(a.VPS, b.VPS)
	case media.AV1:
		return bytes.Equal(a.Seq, b.Seq)
	case media.VP9:
		return a.VP9 == b.VP9
	}
	return true
}

// C02 — random-access starts, min duration, parameter-change cuts, init freshness.
func C02(x *Ctx) {
	x.prop = "C02"
	c, h := x.C, x.H
	views := x.Views()
	lead := c.LeadingTrack()
	lk := c.Tracks[lead].Kind
	segs := x.trackSegs(lead, views)
	exp := expUnits(c, lead)
	unitOf := map[int]int{}
	for ui, e := range exp {
		unitOf[e.Idx] = ui
	}

	// (a) every segment starts on a random-access unit of the leading track
	for _, s := range segs {
		if len(s.Units) == 0 {
			x.fail("ra-start", "empty-segment", "segment %s carries no unit of the leading track", s.Name)
			continue
		}
		d := s.Units[0]
		x.Stats.Add("C02.segment_starts_checked", 1)
		if ui, ok := unitOf[d.Idx]; ok && lk.IsVideo() {
			if !exp[ui].RA {
				x.fail("ra-start", "ra-start/"+lk.String(), "segment %s starts with leading unit %d which is not a random-access unit", s.Name, d.Idx)
			}
			if c.Cfg.Variant != media.VarTS && !d.Sync {
				x.fail("ra-start", "sync-flag/"+lk.String(), "segment %s: first leading sample is not flagged sync", s.Name)
			}
		}
		if c.Cfg.Variant == media.VarTS && s.U.TS != nil && !s.U.TS.StartsPATPMT {
			x.fail("patpmt", "patpmt", "MPEG-TS segment %s does not begin with PAT, PMT", s.Name)
		}
	}

	// (b) the observed cut set equals the due set
	if h.WriteErrs == 0 && len(segs) > 0 && len(segs[0].Units) > 0 {
		observedStart := map[int]bool{}
		for _, s := range segs {
			if len(s.Units) > 0 {
				observedStart[s.Units[0].Idx] = true
			}
		}
		last := segs[len(segs)-1]
		lastUnit := last.Units[len(last.Units)-1]
		closing := -1 // unit index of the cut that closed the last published segment
		if ui, ok := unitOf[lastUnit.Idx]; ok && ui+1 < len(exp) {
			closing = ui + 1
			observedStart[exp[closing].Idx] = true
		}
		first, ok := startIndex(c, lead)
		if ok {
			fu := unitOf[first]
			if segs[0].Units[0].Idx == first {
				rate := int64(c.Tracks[lead].ClockRate)
				minNS := int64(c.Cfg.SegMin)
				segStart := exp[fu]
				cur := media.Params{}
				if lk.IsVideo() {
					cur = c.Tracks[lead].ParamSets[0]
				}
				pending := false
				// parameters carried by units before the first kept one also update the codec
				for ui := 0; ui <= fu; ui++ {
					if p := exp[ui].Param; p >= 0 && lk.IsVideo() {
						np := c.Tracks[lead].ParamSets[p]
						if !paramsEqual(lk, cur, np) {
							cur = np
							pending = true
						}
					}
				}
				if exp[fu].RA {
					pending = false // consumed by the first unit
				}
				count := 1 // units in the open segment (audio-only MPEG-TS rule)
				for ui := fu + 1; ui < len(exp); ui++ {
					e := exp[ui]
					if p := e.Param; p >= 0 && lk.IsVideo() {
						np := c.Tracks[lead].ParamSets[p]
						if !paramsEqual(lk, cur, np) {
							cur = np
							pending = true
						}
					}
					ra := e.RA || !lk.IsVideo()
					due := "no"
					if ra {
						lhs := (e.DTS - segStart.DTS) * 1e9
						rhs := minNS * rate
						elapsedOK := "no"
						// the code under test converts both timestamps to integral nanoseconds
						// before subtracting: when a timestamp is not an integral number of ns the
						// difference can be off by up to 1 ns either way (also at exact equality)
						representable := ((e.DTS%rate)*1e9)%rate == 0 && ((segStart.DTS%rate)*1e9)%rate == 0
						switch {
						case lhs == rhs && representable:
							elapsedOK = "yes"
							x.Stats.Add("C02.cuts_exactly_at_min_duration", 1)
						case lhs-rhs > -rate && lhs-rhs < rate:
							elapsedOK = "either"
						case lhs > rhs:
							elapsedOK = "yes"
						}
						if c.Cfg.Variant == media.VarTS && !lk.IsVideo() && count < 100 {
							elapsedOK = "no"
						}
						due = elapsedOK
						if pending && lk.IsVideo() {
							due = "yes"
						}
					}
					beyond := closing >= 0 && ui > closing
					obs := observedStart[e.Idx]
					cut := obs
					if !beyond {
						x.Stats.Add("C02.cut_decisions", 1)
						if due == "yes" {
							x.Stats.Add("C02.cuts_due", 1)
							if pending && lk.IsVideo() {
								x.Stats.Add("C02.cuts_due_param_change", 1)
							}
						}
						if due == "either" {
							x.Stats.Add("C02.cuts_subns_band", 1)
						}
						if due == "yes" && !obs {
							why := "min-duration"
							if pending {
								why = "param-change"
							}
							x.fail("cut-skipped", "cut-skipped/"+why, "a cut is due at leading unit %d (%s, elapsed %d ticks @%d Hz, min %v) but no segment starts there", e.Idx, why, e.DTS-segStart.DTS, rate, c.Cfg.SegMin)
						}
						if due == "no" && obs {
							why := "early"
							if !ra {
								why = "non-ra"
							}
							x.fail("cut-early", "cut-early/"+why, "a segment starts at leading unit %d although no cut is due (ra=%v elapsed %d ticks @%d Hz, min %v, units in segment %d)", e.Idx, ra, e.DTS-segStart.DTS, rate, c.Cfg.SegMin, count)
						}
					} else {
						cut = due == "yes"
						if cut && e.W <= lastWriteObserved(h) {
							x.fail("cut-skipped", "cut-unpublished", "a cut is due at leading unit %d (written by write %d) but the segment it closes was never published", e.Idx, e.W)
						}
					}
					if ra {
						pending = false
					}
					if cut {
						segStart = e
						count = 0
					}
					count++
				}
			}
		}
	}

	// (c) all streams are cut at the same instant
	for _, r := range h.Rounds {
		var ref []string
		refID := ""
		for _, id := range h.StreamIDs {
			so := r.Streams[id]
			if so == nil || so.PL == nil || so.PL.Media == nil {
				continue
			}
			var cur []string
			for _, s := range so.PL.Media.Segments {
				cur = append(cur, fmt.Sprintf("%d:%s", s.MSN, s.ExtinfRaw))
			}
			if ref == nil {
				ref, refID = cur, id
				continue
			}
			x.Stats.Add("C02.cross_stream_rounds", 1)
			if fmt.Sprint(ref) != fmt.Sprint(cur) {
				x.fail("cross-stream", "cross-stream", "round %d: stream %s lists %v, stream %s lists %v", r.N, refID, ref, id, cur)
			}
		}
	}

	// (d) init segment
	if c.Cfg.Variant != media.VarTS {
		x.c02Init(views)
	}
}

func lastWriteObserved(h *muxrun.History) int {
	if len(h.Rounds) == 0 {
		return -1
	}
	return h.Rounds[len(h.Rounds)-1].WriteIdx
}

func codecParams(k media.Kind, codec any) (media.Params, bool) {
	switch cc := codec.(type) {
	case *fmp4.CodecH264:
		return media.Params{SPS: cc.SPS, PPS: cc.PPS}, k == media.H264
	case *fmp4.CodecH265:
		return media.Params{SPS: cc.SPS, PPS: cc.PPS, VPS: cc.VPS}, k == media.H265
	case *fmp4.CodecAV1:
		return media.Params{Seq: cc.SequenceHeader}, k == media.AV1
	case *fmp4.CodecVP9:
		return media.Params{VP9: media.VP9Params{W: cc.Width, H: cc.Height, Profile: cc.Profile, BitDepth: cc.BitDepth, ColorRange: cc.ColorRange}}, k == media.VP9
	case *fmp4.CodecMPEG4Audio:
		return media.Params{}, k == media.AAC
	case *fmp4.CodecOpus:
		return media.Params{}, k == media.Opus
	}
	return media.Params{}, false
}

func (x *Ctx) c02Init(views map[string]*StreamView) {
	c, h := x.C, x.H
	for track := range c.Tracks {
		ts := &c.Tracks[track]
		stream := h.StreamOf[track]
		// the init URI of this stream
		var init *muxrun.URIRec
		for _, n := range h.URIOrder {
			if u := h.URIs[n]; u.Kind == "init" && u.Stream == stream {
				init = u
			}
		}
		if init == nil {
			continue
		}
		rounds := make([]int, 0, len(init.InitAt))
		for r := range init.InitAt {
			rounds = append(rounds, r)
		}
		sort.Ints(rounds)
		for _, r := range rounds {
			ii := init.InitAt[r]
			x.Stats.Add("C02.init_versions", 1)
			if ii.Err != "" {
				x.fail("init", "init-decode", "round %d: init of %s does not decode: %s", r, stream, ii.Err)
				continue
			}
			if len(ii.Tracks) != 1 || ii.Tracks[0].ID != 1 {
				x.fail("init", "init-tracks", "round %d: init of %s declares %d tracks", r, stream, len(ii.Tracks))
				continue
			}
			if int(ii.Tracks[0].TimeScale) != ts.NaturalRate() {
				x.fail("init", "init-timescale", "round %d: init of %s declares timescale %d, track has %d", r, stream, ii.Tracks[0].TimeScale, ts.NaturalRate())
			}
			if _, ok := codecParams(ts.Kind, ii.Tracks[0].Codec); !ok {
				x.fail("init", "init-codec", "round %d: init of %s declares codec %T for a %s track", r, stream, ii.Tracks[0].Codec, ts.Kind)
			}
		}
		if !ts.Kind.IsVideo() || track != c.LeadingTrack() {
			continue
		}
		// freshness: at each round, find the last parameter-changing unit written so far; if the
		// change has been consumed by a cut at RA unit u*, and the segment starting at u* is
		// listed, the init in force must carry those parameters.
		exp := expUnits(c, track)
		segs := x.trackSegs(track, views)
		segStartRound := map[int]int{} // first unit idx -> first round listed
		sv := views[stream]
		for _, s := range segs {
			if len(s.Units) > 0 {
				segStartRound[s.Units[0].Idx] = sv.Segs[s.MSN].FirstRound
			}
		}
		cur := ts.ParamSets[0]
		type change struct {
			at     int // unit index where the difference was written
			params media.Params
		}
		var changes []change
		for ui, e := range exp {
			if e.Param >= 0 {
				np := ts.ParamSets[e.Param]
				if !paramsEqual(ts.Kind, cur, np) {
					cur = np
					changes = append(changes, change{ui, np})
				}
			}
		}
		if len(changes) == 0 {
			// still: the init must carry the initial parameters
			changes = nil
		}
		initAt := func(round int) *muxrun.InitInfo {
			var best *muxrun.InitInfo
			for _, r := range rounds {
				if r <= round {
					best = init.InitAt[r]
				}
			}
			return best
		}
		firstServedW := -1 // write index of the first round in which the stream's playlist was served
		for _, r := range h.Rounds {
			if so := r.Streams[stream]; so != nil && so.PL != nil && so.PL.Media != nil && so.PL.Media.HasMap {
				firstServedW = r.WriteIdx
				break
			}
		}
		for _, r := range h.Rounds {
			so := r.Streams[stream]
			if so == nil || so.PL == nil || so.PL.Media == nil || !so.PL.Media.HasMap {
				continue
			}
			// last change written at or before this round's write
			var lastCh *change
			for i := range changes {
				if exp[changes[i].at].W <= r.WriteIdx {
					lastCh = &changes[i]
				}
			}
			want := ts.ParamSets[0]
			early := false
			if lastCh != nil {
				// listedBy: the segment that starts at the RA unit consuming change ch is listed at round n
				listedBy := func(ch *change, n int) bool {
					for ui := ch.at; ui < len(exp); ui++ {
						if exp[ui].RA {
							if exp[ui].W > r.WriteIdx {
								return false // change still pending
							}
							fr, listed := segStartRound[exp[ui].Idx]
							return listed && fr <= n
						}
					}
					return false
				}
				if listedBy(lastCh, r.N) {
					want = lastCh.params
				} else {
					// the first segment with the new parameters is not listed yet: everything listed was
					// encoded with the previous ones, and the init (same URI) must still carry them -
					// provided the previous change is itself settled
					// (the init is generated from the parameters current at *that* moment: the first init,
					// and one regenerated for an earlier change after a later one was written, can be ahead
					// of their segments. The clause is applied to the plain situation only: a single change
					// so far, written when the stream's playlist and init were already being served.)
					if lastCh != &changes[0] || firstServedW < 0 || exp[lastCh.at].W <= firstServedW {
						continue
					}
					early = true
				}
			}
			ii := initAt(r.N)
			if ii == nil || ii.Err != "" || len(ii.Tracks) != 1 {
				continue
			}
			got, ok := codecParams(ts.Kind, ii.Tracks[0].Codec)
			if !ok {
				continue
			}
			x.Stats.Add("C02.init_freshness_checks", 1)
			if lastCh != nil {
				x.Stats.Add("C02.init_freshness_after_change", 1)
			}
			eq := paramsEqual(ts.Kind, got, want)
			if ts.Kind == media.AV1 {
				eq = bytes.Equal(media.NormAV1([][]byte{got.Seq}), media.NormAV1([][]byte{want.Seq}))
			}
			if !eq && early {
				x.Stats.Add("C02.init_early_checks_failed", 1)
				x.fail("init-early", "init-early/"+ts.Kind.String(), "round %d: init of %s already carries parameters of a change whose first segment is not listed yet (every listed segment was encoded with the previous ones)", r.N, stream)
				break
			}
			if !eq {
				x.fail("init-stale", "init-stale/"+ts.Kind.String(), "round %d: init of %s does not carry the parameters of the listed segments (last change at unit %v)", r.N, stream, lastCh != nil)
				break
			}
		}
	}
}

// neverStarted: not a single segment rotation happened. When the written leading track holds two
// random-access units that are at least SegmentMinDuration apart (audio-only MPEG-TS: and 100 writes
// apart), followed by one more unit, the first segment was due: the accepted units were swallowed.
func neverStarted(x *Ctx) {
	c := x.C
	lead := c.LeadingTrack()
	ss := c.Samples(lead)
	rate := int64(c.Tracks[lead].ClockRate)
	isVideo := c.Tracks[lead].Kind.IsVideo()
	first := -1
	for i, s := range ss {
		if isVideo && !s.RA {
			continue
		}
		if first < 0 {
			first = i
			continue
		}
		elapsedNS := ticksToNS(s.DTS-ss[first].DTS, rate)
		if elapsedNS < int64(c.Cfg.SegMin)+1000 {
			continue
		}
		if !isVideo && c.Cfg.Variant == media.VarTS && s.WriteIdx-ss[first].WriteIdx < 120 {
			continue
		}
		if i+2 >= len(ss) {
			break
		}
		x.fail("start", "never-started/"+c.Tracks[lead].Kind.String(), "every Write succeeded, the leading track (%s) has random-access units %d and %d that are %d ns apart (SegmentMinDuration %v) and further units after them, yet no segment was ever completed", c.Tracks[lead].Kind, first, i, elapsedNS, c.Cfg.SegMin)
		return
	}
}
