package oracle

import (
	"encoding/hex"
	"fmt"
	"math"
	"net/url"
	"reflect"
	"regexp"
	"sort"
	"strconv"
	"strings"
	"verif/internal/m3u8x"

	"github.com/bluenviron/mediacommon/v2/pkg/codecs/av1"
	"github.com/bluenviron/mediacommon/v2/pkg/codecs/h264"
	"github.com/bluenviron/mediacommon/v2/pkg/codecs/h265"
	"verif/internal/media"
)

// deEmulate removes emulation prevention bytes.
func deEmulate(b []byte) []byte {
	var out []byte
	z := 0
	for _, c := range b {
		if z >= 2 && c == 3 {
			z = 0
			continue
		}
		if c == 0 {
			z++
		} else {
			z = 0
		}
		out = append(out, c)
	}
	return out
}

// hevcString computes the RFC 6381 / ISO 14496-15 E.3 codec string from raw SPS bytes,
// independently of gohlslib's codecparams package. The constraint bytes are returned
// separately with trailing zero bytes removed.
func hevcString(sps []byte) (string, []byte, bool) {
	b := deEmulate(sps)
	if len(b) < 15 {
		return "", nil, false
	}
	// b[0..1] NAL header, b[2]: vps id(4) max_sub_layers(3) nesting(1), b[3]: space(2) tier(1) idc(5)
	space := b[3] >> 6
	tier := (b[3] >> 5) & 1
	idc := b[3] & 0x1f
	compat := uint32(b[4])<<24 | uint32(b[5])<<16 | uint32(b[6])<<8 | uint32(b[7])
	var rev uint32
	for i := 0; i < 32; i++ {
		if compat&(1<<uint(31-i)) != 0 {
			rev |= 1 << uint(i)
		}
	}
	cons := append([]byte{}, b[8:14]...)
	level := b[14]
	s := "hvc1."
	if space >= 1 && space <= 3 {
		s += string(rune('A' + space - 1))
	}
	s += strconv.Itoa(int(idc)) + "." + fmt.Sprintf("%x", rev) + "."
	if tier != 0 {
		s += "H"
	} else {
		s += "L"
	}
	s += strconv.Itoa(int(level))
	for len(cons) > 0 && cons[len(cons)-1] == 0 {
		cons = cons[:len(cons)-1]
	}
	return s, cons, true
}

// canonHEVC splits a served hvc1 string into prefix (4 dot fields) and constraint bytes
// (trailing zeros removed).
func canonHEVC(s string) (string, []byte, bool) {
	f := strings.Split(s, ".")
	if len(f) < 4 {
		return "", nil, false
	}
	var cons []byte
	for _, x := range f[4:] {
		v, err := strconv.ParseUint(x, 16, 8)
		if err != nil {
			return "", nil, false
		}
		cons = append(cons, byte(v))
	}
	for len(cons) > 0 && cons[len(cons)-1] == 0 {
		cons = cons[:len(cons)-1]
	}
	return strings.Join(f[:4], "."), cons, true
}

func av1String(seq []byte) (string, string, bool) {
	var sh av1.SequenceHeader
	if err := sh.Unmarshal(seq); err != nil || len(sh.SeqLevelIdx) == 0 {
		return "", "", false
	}
	tier := "M"
	if sh.SeqTier[0] {
		tier = "H"
	}
	short := fmt.Sprintf("av01.%d.%02d%s.%02d", sh.SeqProfile, sh.SeqLevelIdx[0], tier, sh.ColorConfig.BitDepth)
	b := func(v bool) string {
		if v {
			return "1"
		}
		return "0"
	}
	long := short + "." + b(sh.ColorConfig.MonoChrome) + "." + b(sh.ColorConfig.SubsamplingX) + b(sh.ColorConfig.SubsamplingY) +
		strconv.Itoa(int(sh.ColorConfig.ChromaSamplePosition)) + "."
	if sh.ColorConfig.ColorDescriptionPresentFlag {
		long += fmt.Sprintf("%02d.%02d.%02d.%s", sh.ColorConfig.ColorPrimaries, sh.ColorConfig.TransferCharacteristics,
			sh.ColorConfig.MatrixCoefficients, b(sh.ColorConfig.ColorRange))
	} else {
		long += "01.01.01.0"
	}
	return short, long, true
}

// currentParams returns the parameter set in force for a video track after write wi.
func currentParams(c *media.Case, track int, wi int) media.Params {
	ts := &c.Tracks[track]
	cur := ts.ParamSets[0]
	at := -1
	for _, s := range c.Samples(track) {
		if s.WriteIdx > wi {
			break
		}
		if s.ParamIdx >= 0 {
			cur, at = ts.ParamSets[s.ParamIdx], s.WriteIdx
		}
	}
	// parameter sets written in an access unit of their own (no picture, hence no sample)
	for _, pw := range c.ParamWrites {
		if pw.Track == track && pw.WriteIdx <= wi && pw.WriteIdx > at {
			cur, at = ts.ParamSets[pw.ParamIdx], pw.WriteIdx
		}
	}
	return cur
}

var reQueryInPlaylist = regexp.MustCompile(`\?[^"\n]*`)

// sameURI: same path, and the same query parameters once decoded ("the request's query string is
// preserved": the muxer re-encodes it, as it must before putting it between double quotes).
func sameURI(got, want string) bool {
	gp, gq, _ := strings.Cut(got, "?")
	wp, wq, _ := strings.Cut(want, "?")
	if gp != wp {
		return false
	}
	if gq == wq {
		return true
	}
	gv, err1 := url.ParseQuery(gq)
	wv, err2 := url.ParseQuery(wq)
	return err1 == nil && err2 == nil && reflect.DeepEqual(gv, wv)
}

// C16 — multivariant truthfulness.
func C16(x *Ctx) {
	x.prop = "C16"
	c, h := x.C, x.H
	lead := c.LeadingTrack()
	views := x.Views()
	hasVideo := c.Tracks[lead].Kind.IsVideo()
	for _, r := range h.Rounds {
		if r.MV == nil || r.MV.Resp == nil {
			continue
		}
		where := fmt.Sprintf("round %d", r.N)
		if !r.MV.Resp.OK() {
			x.fail("status", "status", "%s: index.m3u8 status %d", where, r.MV.Resp.Status)
			continue
		}
		pl := r.MV.PL
		if pl == nil || pl.Multivariant == nil {
			x.fail("parse", "parse", "%s: index.m3u8 is not a multivariant playlist", where)
			continue
		}
		x.Stats.Add("C16.multivariant_checked", 1)
		mv := pl.Multivariant
		if len(mv.Variants) != 1 {
			x.fail("variants", "variants", "%s: %d variants", where, len(mv.Variants))
			continue
		}
		va := mv.Variants[0]
		q := ""
		if c.Query != "" {
			q = "?" + c.Query
		}
		if want := h.LeadingStream() + "_stream.m3u8" + q; !sameURI(va.URI, want) {
			x.fail("uri", "variant-uri", "%s: variant URI %q, expected %q", where, va.URI, want)
		}
		// the same playlist for every viewer, each with the query string of its own request
		if r.MVAlt != nil {
			x.Stats.Add("C16.second_viewer_checked", 1)
			if !r.MVAlt.OK() {
				x.fail("uri", "alt-status", "%s: index.m3u8?%s status %d", where, r.AltQuery, r.MVAlt.Status)
			} else {
				// (the query may be served re-encoded - "%20" as "+", parameters sorted -: it is compared
				// decoded by sameURI, and cut off here)
				strip := func(body []byte, _ string) string {
					return reQueryInPlaylist.ReplaceAllString(string(body), "")
				}
				a, b := strip(r.MV.Resp.Body, c.Query), strip(r.MVAlt.Body, r.AltQuery)
				ap := m3u8x.Parse(r.MVAlt.Body)
				altq := ""
				if r.AltQuery != "" {
					altq = "?" + r.AltQuery
				}
				if ap.Multivariant == nil || len(ap.Multivariant.Variants) != 1 {
					x.fail("uri", "alt-parse", "%s: index.m3u8%s is not a multivariant playlist with one variant", where, altq)
				} else if want := h.LeadingStream() + "_stream.m3u8" + altq; !sameURI(ap.Multivariant.Variants[0].URI, want) {
					x.fail("uri", "alt-variant-uri", "%s: a request for index.m3u8%s got variant URI %q, expected %q", where, altq, ap.Multivariant.Variants[0].URI, want)
				} else if a != b {
					x.fail("uri", "alt-differs", "%s: index.m3u8%s and index.m3u8%s differ in more than the query string of their URIs", where, q, altq)
				}
			}
		}
		// CODECS
		wantCodecs := map[string]bool{}
		for ti, t := range c.Tracks {
			switch t.Kind {
			case media.H264:
				p := currentParams(c, ti, r.WriteIdx)
				wantCodecs["avc1."+hex.EncodeToString(p.SPS[1:4])] = true
			case media.H265:
				p := currentParams(c, ti, r.WriteIdx)
				s, cons, _ := hevcString(p.SPS)
				wantCodecs["HEVC:"+s+":"+hex.EncodeToString(cons)] = true
			case media.AV1:
				p := currentParams(c, ti, r.WriteIdx)
				short, long, _ := av1String(p.Seq)
				wantCodecs["AV1:"+short+"|"+long] = true
			case media.VP9:
				p := currentParams(c, ti, r.WriteIdx).VP9
				wantCodecs[fmt.Sprintf("VP9:%02d:%02d", p.Profile, p.BitDepth)] = true
			case media.AAC:
				wantCodecs["mp4a.40."+strconv.Itoa(int(t.AAC.Type))] = true
			case media.Opus:
				wantCodecs["opus"] = true
			}
		}
		got := map[string]bool{}
		for _, cs := range va.Codecs {
			switch {
			case strings.HasPrefix(cs, "hvc1.") || strings.HasPrefix(cs, "hev1."):
				pre, cons, ok := canonHEVC(cs)
				if !ok {
					got["bad:"+cs] = true
				} else {
					got["HEVC:"+pre+":"+hex.EncodeToString(cons)] = true
				}
			case strings.HasPrefix(cs, "av01."):
				matched := false
				for w := range wantCodecs {
					if strings.HasPrefix(w, "AV1:") {
						sl := strings.Split(strings.TrimPrefix(w, "AV1:"), "|")
						if cs == sl[0] || cs == sl[1] {
							got[w] = true
							matched = true
						}
					}
				}
				if !matched {
					got["bad:"+cs] = true
				}
			case strings.HasPrefix(cs, "vp09."):
				f := strings.Split(cs, ".")
				if len(f) >= 4 && len(f[1]) == 2 && len(f[2]) == 2 && len(f[3]) == 2 {
					got["VP9:"+f[1]+":"+f[3]] = true
				} else {
					got["bad:"+cs] = true
				}
			default:
				got[cs] = true
			}
		}
		if fmt.Sprint(keys(got)) != fmt.Sprint(keys(wantCodecs)) {
			x.fail("codecs", "codecs/"+kindsOf(c), "%s: CODECS %v, expected (canonical) %v", where, va.Codecs, keys(wantCodecs))
		}
		seen := map[string]bool{}
		for _, cs := range va.Codecs {
			if seen[cs] {
				x.fail("codecs", "codecs-dup", "%s: CODECS lists %q twice", where, cs)
			}
			seen[cs] = true
		}
		// RESOLUTION / FRAME-RATE
		if hasVideo {
			p := currentParams(c, lead, r.WriteIdx)
			wantRes, wantFPS := "", 0.0
			switch c.Tracks[lead].Kind {
			case media.H264:
				var sps h264.SPS
				if sps.Unmarshal(p.SPS) == nil {
					wantRes = fmt.Sprintf("%dx%d", sps.Width(), sps.Height())
					wantFPS = sps.FPS()
				}
			case media.H265:
				var sps h265.SPS
				if sps.Unmarshal(p.SPS) == nil {
					wantRes = fmt.Sprintf("%dx%d", sps.Width(), sps.Height())
					wantFPS = sps.FPS()
				}
			case media.AV1:
				var sh av1.SequenceHeader
				if sh.Unmarshal(p.Seq) == nil {
					wantRes = fmt.Sprintf("%dx%d", sh.Width(), sh.Height())
				}
			case media.VP9:
				wantRes = fmt.Sprintf("%dx%d", p.VP9.W, p.VP9.H)
			}
			if va.Resolution != wantRes {
				x.fail("resolution", "resolution/"+c.Tracks[lead].Kind.String(), "%s: RESOLUTION %q, current parameter sets say %q", where, va.Resolution, wantRes)
			}
			if wantFPS != 0 {
				if va.FrameRate == nil || math.Abs(*va.FrameRate-wantFPS) > 0.0006 {
					x.fail("framerate", "framerate", "%s: FRAME-RATE %q, SPS timing says %.3f", where, va.FrameRateRaw, wantFPS)
				}
			} else if va.FrameRate != nil {
				x.fail("framerate", "framerate-spurious", "%s: FRAME-RATE %q although the parameter sets carry no timing", where, va.FrameRateRaw)
			}
		} else if va.Resolution != "" || va.FrameRate != nil {
			x.fail("resolution", "resolution-audio", "%s: RESOLUTION / FRAME-RATE on an audio-only muxer", where)
		}
		// renditions
		type want struct {
			name, lang string
			uri        string
			hasURI     bool
			userDef    bool
		}
		var wants []want
		if c.Cfg.Variant != media.VarTS {
			for ti, t := range c.Tracks {
				isLead := ti == lead
				isRend := !isLead || (!t.Kind.IsVideo() && len(c.Tracks) > 1)
				if !isRend {
					continue
				}
				w := want{name: t.Name, lang: t.Language, userDef: t.IsDefault}
				if !isLead {
					w.hasURI = true
					w.uri = h.StreamOf[ti] + "_stream.m3u8" + q
				}
				wants = append(wants, w)
			}
		}
		if len(mv.Renditions) != len(wants) {
			x.fail("renditions", "rendition-count", "%s: %d EXT-X-MEDIA entries, expected %d", where, len(mv.Renditions), len(wants))
		} else {
			anyUser := false
			for _, w := range wants {
				anyUser = anyUser || w.userDef
			}
			defaults := 0
			for i, rd := range mv.Renditions {
				w := wants[i]
				x.Stats.Add("C16.renditions_checked", 1)
				if rd.Type != "AUDIO" || rd.GroupID != va.Audio || va.Audio == "" {
					x.fail("renditions", "rendition-group", "%s: rendition %d TYPE=%s GROUP-ID=%q, variant AUDIO=%q", where, i, rd.Type, rd.GroupID, va.Audio)
				}
				if w.name != "" && rd.Name != w.name {
					x.fail("renditions", "rendition-name", "%s: rendition %d NAME=%q, track name %q", where, i, rd.Name, w.name)
				}
				if rd.Name == "" {
					x.fail("renditions", "rendition-noname", "%s: rendition %d has no NAME", where, i)
				}
				if rd.Language != w.lang {
					x.fail("renditions", "rendition-language", "%s: rendition %d LANGUAGE=%q, track language %q", where, i, rd.Language, w.lang)
				}
				if w.hasURI != (rd.URI != nil) || (rd.URI != nil && !sameURI(*rd.URI, w.uri)) {
					u := "<none>"
					if rd.URI != nil {
						u = *rd.URI
					}
					x.fail("renditions", "rendition-uri", "%s: rendition %d URI %s, expected %q (present=%v)", where, i, u, w.uri, w.hasURI)
				}
				if rd.Default {
					defaults++
				}
				wantDef := (anyUser && w.userDef) || (!anyUser && i == 0)
				if rd.Default != wantDef {
					x.fail("renditions", "rendition-default", "%s: rendition %d DEFAULT=%v, expected %v", where, i, rd.Default, wantDef)
				}
			}
			if len(wants) > 0 && defaults != 1 {
				x.fail("renditions", "rendition-default-count", "%s: %d renditions are DEFAULT", where, defaults)
			}
			names := map[string]bool{}
			for _, rd := range mv.Renditions {
				if names[rd.Name] {
					x.fail("renditions", "rendition-dupname", "%s: two renditions named %q in one group", where, rd.Name)
				}
				names[rd.Name] = true
			}
		}
		if len(wants) == 0 && va.Audio != "" {
			x.fail("renditions", "audio-group-spurious", "%s: variant names AUDIO group %q without renditions", where, va.Audio)
		}
		// bandwidth
		if va.AvgBandwidth == nil || *va.AvgBandwidth <= 0 || va.Bandwidth < *va.AvgBandwidth {
			avg := -1
			if va.AvgBandwidth != nil {
				avg = *va.AvgBandwidth
			}
			// a window in which every listed segment has a zero EXTINF has no bit rate at all: kept apart
			// (known finding, see KNOWN_FINDINGS.txt) from any other way of getting the numbers wrong
			zeroWindow := false
			if so := r.Streams[h.StreamIDs[0]]; va.Bandwidth == 0 && avg == 0 && so != nil && so.PL != nil && so.PL.Media != nil {
				zeroWindow = true
				n := 0
				for _, sg := range so.PL.Media.Segments {
					if sg.Gap {
						continue
					}
					n++
					if sg.DurNS != 0 {
						zeroWindow = false
					}
				}
				zeroWindow = zeroWindow && n > 0
			}
			if zeroWindow {
				x.fail("bandwidth", "bandwidth-zero/only-zero-duration-segments-listed", "%s: BANDWIDTH=0 AVERAGE-BANDWIDTH=0 while every listed segment has EXTINF 0 (two random-access units with the same DTS, the second one with new parameters)", where)
			} else {
				x.fail("bandwidth", "bandwidth-order", "%s: BANDWIDTH=%d AVERAGE-BANDWIDTH=%d", where, va.Bandwidth, avg)
			}
		} else if len(h.StreamIDs) == 1 {
			so := r.Streams[h.StreamIDs[0]]
			if so != nil && so.PL != nil && so.PL.Media != nil {
				sv := views[h.StreamIDs[0]]
				lrate := int64(c.Tracks[lead].ClockRate)
				exp := expUnits(c, lead)
				unitOf := map[int]int{}
				for ui, e := range exp {
					unitOf[e.Idx] = ui
				}
				segs := x.trackSegs(lead, views)
				spanOf := map[int]int64{}
				for _, s := range segs {
					if len(s.Units) > 0 {
						if ns, ok := unitSpan(exp, unitOf, s.Units[0].Idx, s.Units[len(s.Units)-1].Idx, lrate); ok {
							spanOf[s.MSN] = ns
						}
					}
				}
				var peak, sizes, durs float64
				complete := true
				for _, s := range so.PL.Media.Segments {
					if s.Gap {
						continue
					}
					v := sv.Segs[s.MSN]
					ns, ok := spanOf[s.MSN]
					if v == nil || v.U == nil || !ok || ns <= 0 {
						complete = false
						break
					}
					bw := 8 * float64(v.U.Len) * 1e9 / float64(ns)
					if bw > peak {
						peak = bw
					}
					sizes += float64(v.U.Len)
					durs += float64(ns)
				}
				if complete && durs > 0 {
					avg := 8 * sizes * 1e9 / durs
					x.Stats.Add("C16.bandwidth_exact_checked", 1)
					tol := func(v float64) float64 { return 2 + v*2e-5 }
					if math.Abs(float64(va.Bandwidth)-peak) > tol(peak) {
						x.fail("bandwidth", "bandwidth-peak", "%s: BANDWIDTH=%d, peak bit rate of the listed segments is %.1f", where, va.Bandwidth, peak)
					}
					if math.Abs(float64(*va.AvgBandwidth)-avg) > tol(avg) {
						x.fail("bandwidth", "bandwidth-avg", "%s: AVERAGE-BANDWIDTH=%d, mean bit rate of the listed segments is %.1f", where, *va.AvgBandwidth, avg)
					}
				}
			}
		}
	}
}

func keys(m map[string]bool) []string {
	var out []string
	for k := range m {
		out = append(out, k)
	}
	sort.Strings(out)
	return out
}

func kindsOf(c *media.Case) string {
	m := map[string]bool{}
	for _, t := range c.Tracks {
		m[t.Kind.String()] = true
	}
	return strings.Join(keys(m), "+")
}

// C18 — bounded retention.
func C18(x *Ctx) {
	x.prop = "C18"
	c, h := x.C, x.H
	if c.Cfg.Disk && h.Closed {
		// one life cycle of a muxer must leave nothing in Directory, or restarts fill the disk
		x.Stats.Add("C18.life_cycles_checked", 1)
		if len(h.LeftAfterClose) > 0 {
			x.fail("disk", "left-after-close", "after the muxer was closed Directory still holds %d files: %v", len(h.LeftAfterClose), h.LeftAfterClose)
		}
	}
	views := x.Views()
	nStreams := len(h.StreamIDs)
	// parts per parent MSN per stream
	partsOf := map[string]map[int]int{}
	for _, n := range h.URIOrder {
		u := h.URIs[n]
		if u.Kind == "part" {
			if partsOf[u.Stream] == nil {
				partsOf[u.Stream] = map[int]int{}
			}
			partsOf[u.Stream][u.MSN]++
		}
	}
	for _, r := range h.Rounds {
		where := fmt.Sprintf("round %d", r.N)
		bound := 1
		known := true
		for _, id := range h.StreamIDs {
			so := r.Streams[id]
			bound += 2 // playlist + init
			if so == nil || so.PL == nil || so.PL.Media == nil {
				known = false
				continue
			}
			pl := so.PL.Media
			x.Stats.Add("C18.playlists_checked", 1)
			if len(pl.Segments) > c.Cfg.SegmentCount {
				x.fail("window", "window", "%s stream %s: %d segments listed, SegmentCount %d", where, id, len(pl.Segments), c.Cfg.SegmentCount)
			}
			nonGap := 0
			for _, s := range pl.Segments {
				if !s.Gap {
					nonGap++
				}
			}
			bound += nonGap
			next := pl.MediaSequence + len(pl.Segments)
			for msn, n := range partsOf[id] {
				if msn >= pl.MediaSequence && msn <= next {
					bound += n
				}
			}
			bound++ // preload hint
		}
		if known {
			x.Stats.Add("C18.path_counts_checked", 1)
			if r.PathCount > bound {
				x.fail("paths", "paths", "%s: %d URL paths registered, at most %d can be live (window + open segment)", where, r.PathCount, bound)
			}
		}
		if h.Dir != "" {
			x.Stats.Add("C18.dir_listings_checked", 1)
			if len(r.DirFiles) > nStreams*(c.Cfg.SegmentCount+1) {
				x.fail("disk", "disk", "%s: %d files in Directory, at most %d expected", where, len(r.DirFiles), nStreams*(c.Cfg.SegmentCount+1))
			}
		}
	}
	// expired URIs stop resolving
	for _, n := range h.URIOrder {
		u := h.URIs[n]
		if u.ExpiredAt >= 0 && u.Kind != "init" {
			x.Stats.Add("C18.expired_probed", 1)
		}
		for _, p := range u.AfterProbe {
			x.fail("expired", "expired/"+u.Kind, "%s %s: %s", u.Kind, u.Name, p)
		}
	}
	// payload of every published segment <= SegmentMaxSize
	maxSeen := 0
	for _, id := range h.StreamIDs {
		for _, msn := range views[id].MSNs {
			s := views[id].Segs[msn]
			if s.U == nil {
				continue
			}
			total := 0
			for _, f := range s.U.Frags {
				for _, t := range f.Tracks {
					for _, d := range t.Samples {
						total += d.Size
					}
				}
			}
			for _, d := range s.U.TSSamples {
				total += d.Size
			}
			x.Stats.Add("C18.segment_sizes_checked", 1)
			if total > maxSeen {
				maxSeen = total
			}
			if uint64(total) > c.Cfg.SegMaxSize {
				x.fail("size", "size", "segment %s carries %d payload bytes, SegmentMaxSize is %d", s.Name, total, c.Cfg.SegMaxSize)
			}
		}
	}
	if hasFeature(c, "small-max-size") {
		if h.WriteErrs > 0 {
			x.Stats.Add("C18.size_limit_hit", 1)
		}
		if uint64(maxSeen)*10 >= c.Cfg.SegMaxSize*8 {
			x.Stats.Add("C18.segments_near_limit", 1)
		}
		// a size error may only be returned when the open segment could really be full:
		// upper bound of what can sit in the open segment of the failing stream
		for _, r := range h.Rounds {
			if r.WriteErr == "" {
				continue
			}
			if !strings.Contains(r.WriteErr, "maximum segment size") {
				x.fail("error", "other-error", "write %d failed with %q", r.WriteIdx, r.WriteErr)
				continue
			}
			w := c.Writes[r.WriteIdx]
			stream := h.StreamOf[w.Track]
			wR := -1
			for _, r2 := range h.Rounds {
				if r2.WriteIdx >= r.WriteIdx {
					break
				}
				for _, rot := range r2.Rotated {
					if rot == "segments" {
						wR = r2.WriteIdx
					}
				}
			}
			upper := 0
			for ti := range c.Tracks {
				if h.StreamOf[ti] != stream {
					continue
				}
				ss := c.Samples(ti)
				lastBefore := -1
				for i, s := range ss {
					if s.WriteIdx > r.WriteIdx {
						break
					}
					if s.WriteIdx < wR {
						lastBefore = i
						continue
					}
					upper += s.Size
				}
				if lastBefore >= 0 {
					upper += ss[lastBefore].Size
				}
			}
			x.Stats.Add("C18.size_errors_checked", 1)
			if uint64(upper) <= c.Cfg.SegMaxSize {
				x.fail("error", "spurious-size-error", "write %d failed with %q although at most %d payload bytes can be in the open segment (limit %d)", r.WriteIdx, r.WriteErr, upper, c.Cfg.SegMaxSize)
			}
		}
	}
}

// C19 — Low-Latency part regularity.
func C19(x *Ctx) {
	x.prop = "C19"
	c, h := x.C, x.H
	if c.Cfg.Variant != media.VarLL {
		return
	}
	lead := c.LeadingTrack()
	// constant sample duration of the leading track (in ns, exact rational -> float is fine for bounds)
	ss := c.Samples(lead)
	if len(ss) < 3 {
		return
	}
	sdTicks := ss[1].DTS - ss[0].DTS
	for i := 2; i < len(ss); i++ {
		if ss[i].DTS-ss[i-1].DTS != sdTicks {
			x.Stats.Add("C19.not_constant", 1)
			return
		}
	}
	rate := float64(c.Tracks[lead].ClockRate)
	sd := float64(sdTicks) / rate * 1e9
	pm := float64(c.Cfg.PartMin)
	// every stream of the muxer is cut at the leading track's instants and lists the leading track's
	// part durations (C03), so the clauses hold for every rendition playlist as well
	anyD := false
	for _, id := range h.StreamIDs {
		var D int64 = -1
		var lastTarget int64 = -1
		lastHadNonFinal := false
		if id != h.LeadingStream() {
			x.Stats.Add("C19.rendition_streams_checked", 1)
		}
		for _, r := range h.Rounds {
			so := r.Streams[id]
			if so == nil || so.PL == nil || so.PL.Media == nil {
				continue
			}
			pl := so.PL.Media
			where := fmt.Sprintf("round %d stream %s", r.N, id)
			var nonFinal []int64
			for _, s := range pl.Segments {
				for i, p := range s.Parts {
					if i < len(s.Parts)-1 {
						nonFinal = append(nonFinal, p.DurNS)
					}
				}
			}
			for _, p := range pl.TrailingParts {
				nonFinal = append(nonFinal, p.DurNS)
			}
			if pl.PartTargetNS == nil {
				x.fail("part-inf", "part-inf", "%s: no PART-TARGET", where)
				continue
			}
			pt := *pl.PartTargetNS
			if len(nonFinal) > 0 {
				x.Stats.Add("C19.playlists_with_nonfinal", 1)
				if lastHadNonFinal && lastTarget >= 0 && pt != lastTarget {
					x.fail("target-change", "target-change", "%s: PART-TARGET changed from %d ns to %d ns", where, lastTarget, pt)
				}
				lastTarget = pt
				lastHadNonFinal = true
			} else {
				lastHadNonFinal = false
			}
			for _, d := range nonFinal {
				x.Stats.Add("C19.nonfinal_parts_checked", 1)
				if D < 0 {
					D = d
				}
				if d != D {
					x.fail("same-d", "same-d", "%s: non-final part of %d ns, earlier ones had %d ns (sample duration %.0f ns, PartMinDuration %v)", where, d, D, sd, c.Cfg.PartMin)
				}
				if float64(d) > float64(pt)+10 {
					x.fail("le-target", "le-target", "%s: part of %d ns exceeds PART-TARGET %d ns", where, d, pt)
				}
				if float64(d)+10000 < 0.85*float64(pt) {
					x.fail("ge-85", "ge-85", "%s: part of %d ns is less than 85%% of PART-TARGET %d ns (sample duration %.0f ns, PartMinDuration %v)", where, d, pt, sd, c.Cfg.PartMin)
				}
				if float64(d)+10000 < pm {
					x.fail("ge-min", "ge-min", "%s: part of %d ns is shorter than PartMinDuration %v", where, d, c.Cfg.PartMin)
				}
				if float64(d) >= 2*math.Max(pm, sd)+sd+10000 {
					x.fail("upper", "upper", "%s: part of %d ns >= 2*max(PartMinDuration %v, sample %.0f ns) + sample", where, d, c.Cfg.PartMin, sd)
				}
			}
		}
		if D >= 0 {
			anyD = true
		}
	}
	for _, e := range h.EncErrs {
		if strings.Contains(e, "part duration changed") {
			x.Stats.Add("C19.encode_error_part_changed", 1)
		}
	}
	if anyD {
		x.Stats.Add("C19.streams_with_parts", 1)
	}
}
