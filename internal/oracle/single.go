package oracle

import (
	"fmt"

	"verif/internal/m3u8x"
	"verif/internal/media"
)

// SingleMedia validates one media playlist response in isolation: the single-playlist clauses
// of C03, C04 and C05 that do not need the writer's history, plus the strict grammar.
// It returns "key|message" strings.
func SingleMedia(pl *m3u8x.Playlist, cfg media.MuxCfg) []string {
	var out []string
	add := func(key, f string, a ...any) { out = append(out, key+"|"+fmt.Sprintf(f, a...)) }
	for _, v := range pl.Violations {
		add("grammar", "%s", v)
	}
	m := pl.Media
	if m == nil {
		add("not-media", "not a media playlist")
		return out
	}
	x := &Ctx{Stats: Stats{}, prop: "S"}
	singlePlaylistC03(x, "response", m)
	for _, v := range x.V {
		add("c03-"+v.Clause, "%s", v.Msg)
	}
	if len(m.Segments) > cfg.SegmentCount {
		add("c04-too-many", "%d segments listed, SegmentCount %d", len(m.Segments), cfg.SegmentCount)
	}
	if len(m.Segments) == 0 {
		add("c04-empty", "no segments listed")
	}
	var nums []int
	for i, s := range m.Segments {
		if s.Gap {
			continue
		}
		if n := segNo(baseOf(s.URI)); n != s.MSN {
			add("c04-uri-number", "MSN %d has URI %s", s.MSN, s.URI)
		}
		if len(s.Parts) > 0 && len(m.Segments)-i > 2 {
			add("c04-parts-old", "parts listed under MSN %d", s.MSN)
		}
		for _, p := range s.Parts {
			nums = append(nums, partNo(baseOf(p.URI)))
		}
	}
	for _, p := range m.TrailingParts {
		nums = append(nums, partNo(baseOf(p.URI)))
	}
	for i, n := range nums {
		if i > 0 && n != nums[i-1]+1 {
			add("c04-part-number", "part %d follows part %d", n, nums[i-1])
		}
	}
	if cfg.Variant == media.VarLL {
		if m.Hint == nil {
			add("c04-hint-missing", "no preload hint")
		} else if len(nums) > 0 && partNo(baseOf(m.Hint.URI)) != nums[len(nums)-1]+1 {
			add("c04-hint-wrong", "hint %s, last part %d", m.Hint.URI, nums[len(nums)-1])
		}
	} else if len(nums) > 0 {
		add("c04-parts-nonll", "parts in a non Low-Latency playlist")
	}
	return out
}
