// Package oracle contains the deciding oracles over observation histories of the muxer.
package oracle

import (
	"fmt"
	"sort"

	"verif/internal/m3u8x"
	"verif/internal/media"
	"verif/internal/muxrun"
)

// Violation is one observed violation of a property clause.
type Violation struct {
	Prop   string
	Clause string // oracle clause id
	Key    string // stable key used by KNOWN_FINDINGS (clause + minimal distinguishing parameters)
	Msg    string
}

func (v Violation) String() string {
	return fmt.Sprintf("%s key=%s %s", v.Prop, v.Key, v.Msg)
}

// Stats counts what the oracles actually observed.
type Stats map[string]int

// Add increments a counter.
func (s Stats) Add(k string, n int) { s[k] += n }

// Ctx is the evaluation context of one history.
type Ctx struct {
	H     *muxrun.History
	C     *media.Case
	Stats Stats
	V     []Violation
	prop  string
}

// NewCtx allocates a context.
func NewCtx(h *muxrun.History, st Stats) *Ctx {
	return &Ctx{H: h, C: h.Case, Stats: st}
}

func (x *Ctx) fail(clause, key, format string, args ...any) {
	// at most 3 reports per clause and history
	n := 0
	for _, v := range x.V {
		if v.Prop == x.prop && v.Clause == clause {
			n++
		}
	}
	if n >= 3 {
		return
	}
	x.V = append(x.V, Violation{Prop: x.prop, Clause: clause, Key: x.prop + "/" + key, Msg: fmt.Sprintf(format, args...)})
}

// SegView is one media sequence number of a stream as observed over the history.
type SegView struct {
	MSN        int
	Name       string
	ExtinfRaw  string
	DurNS      int64
	Gap        bool
	FirstRound int
	LastRound  int
	U          *muxrun.URIRec
	Parts      []PartView // as last listed with parts
	PDTs       map[string]bool
	PDT        *m3u8x.Segment
}

// PartView is one listed part.
type PartView struct {
	Name  string
	DurNS int64
	Indep bool
	U     *muxrun.URIRec
}

// StreamView is the per-stream digest of a history.
type StreamView struct {
	ID       string
	Segs     map[int]*SegView
	MSNs     []int
	Conflict []string
}

// Views builds the per-stream views.
func (x *Ctx) Views() map[string]*StreamView {
	out := map[string]*StreamView{}
	for _, id := range x.H.StreamIDs {
		sv := &StreamView{ID: id, Segs: map[int]*SegView{}}
		out[id] = sv
		for _, r := range x.H.Rounds {
			so := r.Streams[id]
			if so == nil || so.PL == nil || so.PL.Media == nil {
				continue
			}
			pl := so.PL.Media
			for i := range pl.Segments {
				s := &pl.Segments[i]
				v, ok := sv.Segs[s.MSN]
				name := ""
				if !s.Gap {
					name = baseOf(s.URI)
				}
				if !ok {
					v = &SegView{MSN: s.MSN, Name: name, ExtinfRaw: s.ExtinfRaw, DurNS: s.DurNS, Gap: s.Gap, FirstRound: r.N, PDTs: map[string]bool{}}
					if !s.Gap {
						v.U = x.H.URIs[name]
					}
					sv.Segs[s.MSN] = v
					sv.MSNs = append(sv.MSNs, s.MSN)
				} else if v.Name != name || v.ExtinfRaw != s.ExtinfRaw || v.Gap != s.Gap {
					sv.Conflict = append(sv.Conflict, fmt.Sprintf("round %d: MSN %d was (%s,%s,gap=%v) now (%s,%s,gap=%v)",
						r.N, s.MSN, v.Name, v.ExtinfRaw, v.Gap, name, s.ExtinfRaw, s.Gap))
				}
				v.LastRound = r.N
				if s.PDTRaw != "" {
					v.PDTs[s.PDTRaw] = true
					v.PDT = s
				}
				if len(s.Parts) > 0 {
					v.Parts = v.Parts[:0]
					for _, p := range s.Parts {
						pn := baseOf(p.URI)
						v.Parts = append(v.Parts, PartView{Name: pn, DurNS: p.DurNS, Indep: p.Independent, U: x.H.URIs[pn]})
					}
				}
			}
		}
		sort.Ints(sv.MSNs)
	}
	return out
}

func baseOf(uri string) string {
	for i := 0; i < len(uri); i++ {
		if uri[i] == '?' {
			uri = uri[:i]
			break
		}
	}
	for i := len(uri) - 1; i >= 0; i-- {
		if uri[i] == '/' {
			return uri[i+1:]
		}
	}
	return uri
}

// pos is the position of a sample in the global write order.
type pos struct{ w, sub int }

func (a pos) less(b pos) bool { return a.w < b.w || (a.w == b.w && a.sub < b.sub) }

// samplePos returns the position of each expected sample of a track.
func samplePos(c *media.Case, track int) []pos {
	out := make([]pos, len(c.Samples(track)))
	for wi, w := range c.Writes {
		if w.Track != track {
			continue
		}
		for si, idx := range w.Samples {
			out[idx] = pos{wi, si}
		}
	}
	return out
}

// accepted computes, per the statement of C01, the index of the first unit of a track that the
// muxer is expected to keep. ok=false when the track is expected to contribute nothing.
//
// Leading track: first random-access unit (video) / first unit (audio).
// Other tracks (fMP4): the first unit emitted (i.e. leaving the one-sample look-ahead) after the
// first segment was created, which happens when the leading track's second kept unit arrives.
// Other tracks (MPEG-TS): the first unit written after the first kept leading unit.
func startIndex(c *media.Case, track int) (int, bool) {
	lead := c.LeadingTrack()
	ls := c.Samples(lead)
	first := -1
	for i, s := range ls {
		if !c.Tracks[lead].Kind.IsVideo() || s.RA {
			first = i
			break
		}
	}
	if first < 0 {
		return 0, false
	}
	if track == lead {
		return first, true
	}
	lp := samplePos(c, lead)
	tp := samplePos(c, track)
	if c.Cfg.Variant == media.VarTS {
		t0 := lp[first]
		for k := range tp {
			if t0.less(tp[k]) {
				return k, true
			}
		}
		return 0, false
	}
	if first+1 >= len(ls) {
		return 0, false
	}
	t0 := lp[first+1]
	for k := 0; k+1 < len(tp); k++ {
		if t0.less(tp[k+1]) {
			return k, true
		}
	}
	return 0, false
}

// lastSegRotationWrite returns the write index during which the last segment rotation that is
// visible in a playlist happened (-1 if none).
func lastSegRotationWrite(h *muxrun.History) int {
	w := -1
	for _, r := range h.Rounds {
		for _, x := range r.Rotated {
			if x == "segments" {
				w = r.WriteIdx
			}
		}
	}
	return w
}

func hasFeature(c *media.Case, f string) bool { return c.Features[f] }
