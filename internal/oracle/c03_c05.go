package oracle

import (
	"fmt"
	"strings"

	"verif/internal/hx"

	"verif/internal/m3u8x"
	"verif/internal/media"
	"verif/internal/muxrun"
)

func abs64(v int64) int64 {
	if v < 0 {
		return -v
	}
	return v
}

// ticksToNS converts ticks to nanoseconds exactly when possible (rounded to nearest otherwise).
func ticksToNS(ticks int64, rate int64) int64 {
	q := ticks / rate
	r := ticks % rate
	return q*1e9 + (r*1e9+rate/2)/rate
}

// unitSpan returns the media time (in ns) spanned by decoded leading units [first,last] using the
// harness's own record of written timestamps: DTS(last+1) - DTS(first).
func unitSpan(exp []expUnit, unitOf map[int]int, firstIdx, lastIdx int, rate int64) (int64, bool) {
	a, ok1 := unitOf[firstIdx]
	b, ok2 := unitOf[lastIdx]
	if !ok1 || !ok2 || b+1 >= len(exp) {
		return 0, false
	}
	return ticksToNS(exp[b+1].DTS-exp[a].DTS, rate), true
}

// SinglePlaylistChecks validates the clauses of C03 that need only one playlist response.
func singlePlaylistC03(x *Ctx, where string, pl *m3u8x.Media) {
	for _, s := range pl.Segments {
		need := (s.DurNS + 5e8) / 1e9
		if s.DurNS%1e9 == 5e8 {
			need--
		}
		if int64(pl.TargetDuration) < need {
			x.fail("target", "target-small", "%s: TARGETDURATION %d < EXTINF %s rounded", where, pl.TargetDuration, s.ExtinfRaw)
		}
	}
	if pl.PartTargetNS != nil {
		chk := func(p m3u8x.Part) {
			if p.DurNS > *pl.PartTargetNS {
				x.fail("part-target", "part-target-small", "%s: PART-TARGET %d ns < part duration %s", where, *pl.PartTargetNS, p.DurRaw)
			}
		}
		for _, s := range pl.Segments {
			for _, p := range s.Parts {
				chk(p)
			}
		}
		for _, p := range pl.TrailingParts {
			chk(p)
		}
		if pl.ServerControl != nil && pl.ServerControl.PartHoldBackNS != nil {
			if *pl.ServerControl.PartHoldBackNS < 2**pl.PartTargetNS {
				x.fail("hold-back", "hold-back", "%s: PART-HOLD-BACK %d ns < 2 x PART-TARGET %d ns", where, *pl.ServerControl.PartHoldBackNS, *pl.PartTargetNS)
			}
		}
	}
	if pl.ServerControl != nil && pl.ServerControl.CanSkipUntilNS != nil {
		if *pl.ServerControl.CanSkipUntilNS < 6*int64(pl.TargetDuration)*1e9 {
			x.fail("skip-until", "skip-until", "%s: CAN-SKIP-UNTIL %d ns < 6 x TARGETDURATION %d", where, *pl.ServerControl.CanSkipUntilNS, pl.TargetDuration)
		}
	}
	for _, s := range pl.Segments {
		if len(s.Parts) == 0 || s.Gap {
			continue
		}
		var sum int64
		for _, p := range s.Parts {
			sum += p.DurNS
		}
		tol := int64(len(s.Parts)+1) * 10000
		if abs64(sum-s.DurNS) > tol {
			x.fail("part-sum", "part-sum", "%s: parts of MSN %d add up to %d ns, EXTINF is %d ns", where, s.MSN, sum, s.DurNS)
		}
		x.Stats.Add("C03.part_sums_checked", 1)
	}
}

// C03 — playlist durations, target durations and date-times.
func C03(x *Ctx) {
	x.prop = "C03"
	c, h := x.C, x.H
	views := x.Views()
	lead := c.LeadingTrack()
	rate := int64(c.Tracks[lead].ClockRate)
	exp := expUnits(c, lead)
	unitOf := map[int]int{}
	for ui, e := range exp {
		unitOf[e.Idx] = ui
	}
	leadStream := h.StreamOf[lead]
	segs := x.trackSegs(lead, views)
	segSpan := map[int]span{} // MSN -> expected duration
	for _, s := range segs {
		if len(s.Units) == 0 {
			continue
		}
		ns, ok := unitSpan(exp, unitOf, s.Units[0].Idx, s.Units[len(s.Units)-1].Idx, rate)
		segSpan[s.MSN] = span{ns, ok, s.Units[0].Idx}
		// recomputed from the decoded fragments (fMP4): sum of sample durations
		if c.Cfg.Variant != media.VarTS && c.Tracks[lead].ClockRate == c.Tracks[lead].NaturalRate() {
			var ticks int64
			for _, d := range s.Units {
				ticks += int64(d.Dur)
			}
			sv := views[leadStream].Segs[s.MSN]
			if abs64(ticksToNS(ticks, rate)-sv.DurNS) > 10002 {
				x.fail("extinf-decoded", "extinf-decoded", "segment %s: EXTINF %s but its leading samples span %d ticks @%d Hz", s.Name, sv.ExtinfRaw, ticks, rate)
			}
			x.Stats.Add("C03.extinf_vs_decoded", 1)
		}
	}
	// parts of the leading stream
	partSpan := map[string]span{}
	if c.Cfg.Variant == media.VarLL {
		for _, p := range x.partsOf(leadStream) {
			var idxs []int
			for _, f := range p.Frags {
				for _, t := range f.Tracks {
					for _, d := range t.Samples {
						if d.Track == lead {
							idxs = append(idxs, d.Idx)
						}
					}
				}
			}
			if len(idxs) == 0 {
				continue
			}
			ns, ok := unitSpan(exp, unitOf, idxs[0], idxs[len(idxs)-1], rate)
			partSpan[fmt.Sprint(partNo(p.Name))] = span{ns, ok, idxs[0]}
		}
	}

	lastTarget := map[string]int{}
	for _, r := range h.Rounds {
		for _, id := range h.StreamIDs {
			so := r.Streams[id]
			if so == nil || so.PL == nil || so.PL.Media == nil {
				continue
			}
			pl := so.PL.Media
			where := fmt.Sprintf("round %d stream %s", r.N, id)
			x.Stats.Add("C03.playlists_checked", 1)
			singlePlaylistC03(x, where, pl)
			if t, ok := lastTarget[id]; ok && pl.TargetDuration < t {
				x.fail("target-decrease", "target-decrease", "%s: TARGETDURATION went from %d to %d", where, t, pl.TargetDuration)
			} else if ok && pl.TargetDuration > t {
				x.Stats.Add("C03.target_increases", 1)
			}
			lastTarget[id] = pl.TargetDuration
			for _, s := range pl.Segments {
				if s.Gap {
					continue
				}
				sp, ok := segSpan[s.MSN]
				if ok && sp.ok {
					x.Stats.Add("C03.extinf_checked", 1)
					if abs64(sp.ns-s.DurNS) > 10002 {
						x.fail("extinf", "extinf", "%s: MSN %d EXTINF %s, media time spanned by the leading track is %d ns", where, s.MSN, s.ExtinfRaw, sp.ns)
					}
					if s.PDT != nil {
						ntp := c.Samples(lead)[sp.first].NTP
						d := s.PDT.Sub(ntp)
						x.Stats.Add("C03.pdt_checked", 1)
						if d > 1e6 || d < -1e6 {
							x.fail("pdt", "pdt", "%s: MSN %d PROGRAM-DATE-TIME %s, wall-clock time written with its first unit %s", where, s.MSN, s.PDTRaw, ntp.UTC().Format("2006-01-02T15:04:05.000000Z"))
						}
					}
				}
				for _, p := range s.Parts {
					x.c03Part(where, p, partSpan)
				}
			}
			for _, p := range pl.TrailingParts {
				x.c03Part(where, p, partSpan)
			}
		}
	}
}

type span struct {
	ns    int64
	ok    bool
	first int
}

func (x *Ctx) c03Part(where string, p m3u8x.Part, partSpan map[string]span) {
	sp, ok := partSpan[fmt.Sprint(partNo(baseOf(p.URI)))]
	if !ok || !sp.ok {
		return
	}
	x.Stats.Add("C03.part_durations_checked", 1)
	if abs64(sp.ns-p.DurNS) > 10002 {
		x.fail("part-duration", "part-duration", "%s: part %s DURATION %s, media time spanned by the leading track is %d ns", where, baseOf(p.URI), p.DurRaw, sp.ns)
	}
}

// C04 — playlist evolution.
func C04(x *Ctx) {
	x.prop = "C04"
	c, h := x.C, x.H
	views := x.Views()
	for _, id := range h.StreamIDs {
		sv := views[id]
		for _, cf := range sv.Conflict {
			x.fail("msn-function", "msn-function", "stream %s: %s", id, cf)
		}
		lastMS, lastEnd := -1, -1
		seenParts := map[int]bool{}
		maxPart := -1
		slides := 0
		for _, r := range h.Rounds {
			so := r.Streams[id]
			if so == nil || so.PL == nil || so.PL.Media == nil {
				continue
			}
			pl := so.PL.Media
			where := fmt.Sprintf("round %d stream %s", r.N, id)
			x.Stats.Add("C04.playlists_checked", 1)
			ms := pl.MediaSequence
			end := ms + len(pl.Segments)
			if lastMS >= 0 {
				if ms < lastMS {
					x.fail("ms-decrease", "ms-decrease", "%s: MEDIA-SEQUENCE went from %d to %d", where, lastMS, ms)
				}
				if end < lastEnd {
					x.fail("tail-removed", "tail-removed", "%s: last MSN went from %d to %d", where, lastEnd-1, end-1)
				}
				if ms > lastMS {
					slides += ms - lastMS
				}
			}
			lastMS, lastEnd = ms, end
			if len(pl.Segments) > c.Cfg.SegmentCount {
				x.fail("too-many", "too-many", "%s: %d segments listed, SegmentCount is %d", where, len(pl.Segments), c.Cfg.SegmentCount)
			}
			for i, s := range pl.Segments {
				if s.Gap {
					continue
				}
				if n := segNo(baseOf(s.URI)); n != s.MSN {
					x.fail("uri-number", "uri-number", "%s: MSN %d has URI %s", where, s.MSN, s.URI)
				}
				if len(s.Parts) > 0 && len(pl.Segments)-i > 2 {
					x.fail("parts-old", "parts-old", "%s: parts listed under MSN %d which is not one of the last two segments", where, s.MSN)
				}
			}
			if so.Delta != nil && so.Delta.Media != nil {
				// the delta update of the same instant is one more observable playlist: same
				// MEDIA-SEQUENCE, and every segment it lists is the one the full playlist lists
				// under that number
				d := so.Delta.Media
				x.Stats.Add("C04.delta_playlists_checked", 1)
				if d.Skip != nil && *d.Skip > 0 {
					x.Stats.Add("C04.delta_playlists_with_skipped_segments", 1)
				}
				if d.MediaSequence != ms {
					x.fail("delta-ms", "delta-ms", "%s: the delta update announces MEDIA-SEQUENCE %d, the playlist %d", where, d.MediaSequence, ms)
				}
				full := map[int]m3u8x.Segment{}
				for _, s := range pl.Segments {
					full[s.MSN] = s
				}
				for _, s := range d.Segments {
					f, ok := full[s.MSN]
					if !ok {
						x.fail("delta-msn", "delta-unknown", "%s: the delta update lists MSN %d (%s), the playlist does not", where, s.MSN, s.URI)
						break
					}
					if f.URI != s.URI || f.ExtinfRaw != s.ExtinfRaw || f.Gap != s.Gap {
						x.fail("delta-msn", "delta-differs", "%s: MSN %d is %s (%s, gap %v) in the delta update and %s (%s, gap %v) in the playlist", where, s.MSN, s.URI, s.ExtinfRaw, s.Gap, f.URI, f.ExtinfRaw, f.Gap)
						break
					}
				}
				if len(d.Segments) > 0 && len(pl.Segments) > 0 && d.Segments[len(d.Segments)-1].MSN != pl.Segments[len(pl.Segments)-1].MSN {
					x.fail("delta-msn", "delta-tail", "%s: the delta update ends at MSN %d, the playlist at %d", where, d.Segments[len(d.Segments)-1].MSN, pl.Segments[len(pl.Segments)-1].MSN)
				}
			}
			if c.Cfg.Variant == media.VarLL {
				var nums []int
				for _, s := range pl.Segments {
					for _, p := range s.Parts {
						nums = append(nums, partNo(baseOf(p.URI)))
					}
				}
				for _, p := range pl.TrailingParts {
					nums = append(nums, partNo(baseOf(p.URI)))
				}
				for i, n := range nums {
					if i > 0 && n != nums[i-1]+1 {
						x.fail("part-number", "part-number", "%s: part %d follows part %d", where, n, nums[i-1])
					}
					seenParts[n] = true
					if n > maxPart {
						maxPart = n
					}
				}
				if pl.Hint == nil {
					x.fail("hint", "hint-missing", "%s: no EXT-X-PRELOAD-HINT", where)
				} else if len(nums) > 0 {
					x.Stats.Add("C04.hints_checked", 1)
					if hn := partNo(baseOf(pl.Hint.URI)); hn != nums[len(nums)-1]+1 {
						x.fail("hint", "hint-wrong", "%s: preload hint names part %d, last listed part is %d", where, hn, nums[len(nums)-1])
					}
				}
			} else {
				for _, s := range pl.Segments {
					if len(s.Parts) > 0 {
						x.fail("parts-nonll", "parts-nonll", "%s: parts listed in a non Low-Latency playlist", where)
					}
				}
			}
		}
		// (a Write call that rotated two segments at once leaves parts that no observable playlist
		// ever listed: the hole clause needs an observation between any two rotations)
		multiRot := false
		for _, r := range h.Rounds {
			n := 0
			for _, k := range r.Rotated {
				if k == "segments" {
					n++
				}
			}
			if n >= 2 {
				multiRot = true
			}
		}
		for n := 0; n <= maxPart && !multiRot; n++ {
			if !seenParts[n] {
				x.fail("part-hole", "part-hole", "stream %s: part %d was never listed although part %d was", id, n, maxPart)
				break
			}
		}
		x.Stats.Add("C04.window_slides", slides)
		if slides >= 2*c.Cfg.SegmentCount {
			x.Stats.Add("C04.streams_slid_2x", 1)
		}
	}
	// all streams are cut at the same instants: as soon as one stream serves its playlist, every
	// other stream of the muxer serves one too (a request for it no longer waits for content)
	crossAvailability(x)
	// all streams agree within a round
	for _, r := range h.Rounds {
		ref, refID := "", ""
		for _, id := range h.StreamIDs {
			so := r.Streams[id]
			if so == nil || so.PL == nil || so.PL.Media == nil {
				continue
			}
			var sb strings.Builder
			// the announced target durations belong to what "the same durations at the same time" means
			pt := int64(-1)
			if so.PL.Media.PartTargetNS != nil {
				pt = *so.PL.Media.PartTargetNS
			}
			fmt.Fprintf(&sb, "TARGETDURATION=%d PART-TARGET=%d ", so.PL.Media.TargetDuration, pt)
			for _, s := range so.PL.Media.Segments {
				fmt.Fprintf(&sb, "%d:%s:%v ", s.MSN, s.ExtinfRaw, s.Gap)
			}
			if refID == "" {
				ref, refID = sb.String(), id
				continue
			}
			x.Stats.Add("C04.cross_stream_rounds", 1)
			if sb.String() != ref {
				x.fail("cross-stream", "cross-stream", "round %d: stream %s lists [%s], stream %s lists [%s]", r.N, refID, ref, id, sb.String())
			}
		}
	}
}

// C05 — advertised URIs fetchable, immutable, consistent.
func C05(x *Ctx) {
	x.prop = "C05"
	c, h := x.C, x.H
	// the playlists are advertised URIs too (the media playlists by the multivariant playlist, the
	// multivariant playlist by the application): a player picks its parser by the content type
	plType := func(what string, n int, r *hx.Resp) {
		if r == nil || r.Status != 200 {
			return
		}
		x.Stats.Add("C05.playlist_types_checked", 1)
		ct := strings.ToLower(strings.TrimSpace(strings.Split(r.Header.Get("Content-Type"), ";")[0]))
		if ct != "application/vnd.apple.mpegurl" && ct != "audio/mpegurl" {
			x.fail("ctype", "ctype/playlist", "round %d: %s served with Content-Type %q", n, what, r.Header.Get("Content-Type"))
		}
	}
	for _, r := range h.Rounds {
		if r.MV != nil {
			plType("the multivariant playlist", r.N, r.MV.Resp)
		}
		for _, id := range h.StreamIDs {
			if so := r.Streams[id]; so != nil {
				plType("media playlist "+id, r.N, so.Resp)
			}
		}
	}
	for _, n := range h.URIOrder {
		u := h.URIs[n]
		x.Stats.Add("C05.uris_checked", 1)
		x.Stats.Add("C05.fetches", u.Fetches)
		if u.Fetches == 0 {
			continue
		}
		if u.Status != 200 {
			x.fail("status", "status/"+u.Kind, "%s %s: status %d when first listed (round %d)", u.Kind, u.Name, u.Status, u.FirstRound)
			continue
		}
		wantCT := "video/mp4"
		if c.Cfg.Variant == media.VarTS {
			wantCT = "video/MP2T"
		}
		if u.CType != wantCT {
			x.fail("ctype", "ctype/"+u.Kind, "%s %s: Content-Type %q", u.Kind, u.Name, u.CType)
		}
		if u.Len == 0 {
			x.fail("empty", "empty/"+u.Kind, "%s %s: empty body", u.Kind, u.Name)
		}
		for _, m := range u.Mismatch {
			x.fail("immutable", "immutable/"+u.Kind, "%s %s: %s", u.Kind, u.Name, m)
		}
		if u.Fetches > 1 {
			x.Stats.Add("C05.refetched", 1)
			if h.Dir != "" && u.Kind != "init" {
				x.Stats.Add("C05.disk_refetched", 1)
			}
		}
		if u.DecodeErr != "" {
			x.fail("decode", "decode/"+u.Kind, "%s %s does not decode: %s", u.Kind, u.Name, u.DecodeErr)
		}
		if u.ConcatDone {
			x.Stats.Add("C05.parts_concat_checked", 1)
			if !u.ConcatOK {
				x.fail("concat", "concat", "segment %s is not the concatenation of its parts %v", u.Name, u.PartNames)
			}
		}
		for _, p := range u.AfterProbe {
			x.Stats.Add("C05.expired_probe_failures", 1)
			x.fail("expired", "expired/"+u.Kind, "%s %s: %s", u.Kind, u.Name, p)
		}
		if u.ExpiredAt >= 0 {
			x.Stats.Add("C05.expired_probed", 1)
		}
		if u.Kind == "part" {
			for _, f := range u.Frags {
				if int(f.Seq) != partNo(u.Name) {
					x.fail("mfhd", "mfhd", "part %s carries fragment sequence number %d", u.Name, f.Seq)
				}
			}
			if len(u.Frags) != 1 {
				x.fail("mfhd", "part-frags", "part %s carries %d fragments", u.Name, len(u.Frags))
			}
		}
		if u.Kind == "seg" && u.ConcatDone {
			for i, f := range u.Frags {
				if i < len(u.PartNames) && int(f.Seq) != partNo(u.PartNames[i]) {
					x.fail("mfhd", "mfhd-seg", "segment %s fragment %d has sequence number %d, part is %s", u.Name, i, f.Seq, u.PartNames[i])
				}
			}
		}
	}
	for _, p := range h.UnknownProbes {
		x.fail("unknown", "unknown", "%s", p)
	}
	// fMP4 variants: fragment sequence numbers increase by one across a stream
	if c.Cfg.Variant != media.VarTS {
		views := x.Views()
		for _, id := range h.StreamIDs {
			prev := int64(-1)
			for _, msn := range views[id].MSNs {
				s := views[id].Segs[msn]
				if s.U == nil {
					continue
				}
				for _, f := range s.U.Frags {
					if prev >= 0 && int64(f.Seq) != prev+1 {
						x.fail("mfhd", "mfhd-order", "stream %s: fragment sequence number %d follows %d", id, f.Seq, prev)
					}
					prev = int64(f.Seq)
				}
			}
		}
	}
	_ = muxrun.Watchdog
}

// crossAvailability: in a round in which some stream's media playlist is served, a stream whose
// request is still parked (waiting for first content) two rounds later has been left behind.
func crossAvailability(x *Ctx) {
	h := x.H
	if len(h.StreamIDs) < 2 {
		return
	}
	firstServed := -1
	for ri, r := range h.Rounds {
		for _, id := range h.StreamIDs {
			if so := r.Streams[id]; so != nil && so.PL != nil && so.PL.Media != nil && firstServed < 0 {
				firstServed = ri
			}
		}
	}
	if firstServed < 0 {
		return
	}
	x.Stats.Add(x.prop+".stream_availability_checked", 1)
	for _, id := range h.StreamIDs {
		last := h.Rounds[len(h.Rounds)-1].Streams[id]
		served := false
		for _, r := range h.Rounds {
			if so := r.Streams[id]; so != nil && so.PL != nil && so.PL.Media != nil {
				served = true
			}
		}
		if !served && len(h.Rounds)-firstServed > 3 && (last == nil || last.Parked || last.PL == nil) {
			x.fail("cross-stream", "stream-never-served", "another stream serves its media playlist since round %d, but %s_stream.m3u8 was still waiting for content at the end (round %d): its segments were never published", h.Rounds[firstServed].N, id, h.Rounds[len(h.Rounds)-1].N)
		}
	}
}
