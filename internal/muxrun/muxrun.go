// Package muxrun drives a real gohlslib.Muxer through a generated write sequence and records
// everything observable through Muxer.Handle after every Write (the observation history).
package muxrun

import (
	"crypto/sha256"
	"fmt"
	"os"
	"path"
	"regexp"
	"runtime"
	"runtime/debug"
	"sort"
	"strconv"
	"strings"
	"sync"
	"time"

	"github.com/bluenviron/gohlslib/v2"
	"verif/internal/decode"
	"verif/internal/hx"
	"verif/internal/m3u8x"
	"verif/internal/media"
)

// Watchdog is the generous wall-clock bound used only to detect wedged requests.
var Watchdog = 20 * time.Second

// DecSample is a decoded sample matched against the written ones.
type DecSample struct {
	Track    int // case track index (-1 unknown)
	Idx      int // expected-sample index from the payload tag (-1 unknown)
	DTS      int64
	PTSOff   int32
	Dur      uint32
	Sync     bool
	BytesOK  bool
	Size     int
	PTS      int64 // MPEG-TS raw
	NUnits   int   // MPEG-TS: units in the PES
	FirstIdx int   // MPEG-TS audio: tag of first AU; all AUs must be consecutive
	AUDs     int   // fMP4, H264: access unit delimiters stored in the sample
}

// FragInfo is a decoded fragment.
type FragInfo struct {
	Seq    uint32
	Tracks []FragTrackInfo
}

// FragTrackInfo is one track run of a fragment.
type FragTrackInfo struct {
	ID      int
	Base    uint64
	Samples []DecSample
}

// URIRec is everything learnt about one advertised URI.
type URIRec struct {
	Name       string // path without query
	Stream     string
	Kind       string // seg | part | init
	FirstRound int
	LastRound  int // last round in which it was listed
	Status     int
	CType      string
	Hash       [32]byte
	Len        int
	Body       []byte // kept while listed
	Fetches    int
	Mismatch   []string // immutability / status problems (round-stamped)
	DecodeErr  string
	Frags      []FragInfo        // fMP4
	TS         *decode.TS        // MPEG-TS (samples replaced by TSSamples)
	TSSamples  []DecSample       // MPEG-TS
	InitAt     map[int]*InitInfo // init: round -> decoded (only when bytes changed)
	ExpiredAt  int               // round at which it was seen to leave the window (-1)
	MSN        int               // seg: media sequence number; part: MSN of the parent segment
	ConcatDone bool              // seg: parts-concatenation compared
	ConcatOK   bool
	PartNames  []string // seg: names of its parts as listed
	AfterProbe []string // problems found probing after expiry
}

// InitInfo is a decoded init segment.
type InitInfo struct {
	Round  int
	Hash   [32]byte
	Err    string
	Tracks []InitTrack
}

// InitTrack describes one track of an init segment.
type InitTrack struct {
	ID        int
	TimeScale uint32
	Codec     any // fmp4.Codec
}

// StreamObs is a playlist response of one stream in one round.
type StreamObs struct {
	Resp   *hx.Resp
	PL     *m3u8x.Playlist
	Parked bool
	Delta  *m3u8x.Playlist // Low-Latency, Options.Delta: the _HLS_skip=YES form fetched right after PL
}

// Round is one observation round.
type Round struct {
	N         int
	WriteIdx  int // -1 for the round before any write
	WriteErr  string
	InWindow  bool     // observed from inside a segment rotation (Options.Window)
	Rotated   []string // rotation hooks seen during the write
	MV        *StreamObs
	MVAlt     *hx.Resp // Options.AltQuery: index.m3u8 asked again, by "another viewer", with AltQuery
	AltQuery  string
	Streams   map[string]*StreamObs
	DirFiles  []string
	PathCount int
	EncErrs   []string
}

// History is the observation history of a case.
type History struct {
	Overlapped     int // URIs fetched by two overlapping requests
	inWindow       bool
	curWrite       int
	WindowRounds   int // observation rounds taken inside a segment rotation (Options.Window)
	DefaultsUsed   int // parameters left at their zero value (documented defaults apply)
	lastParsed     map[string]*m3u8x.Playlist
	lastBody       map[string]string
	writeStuck     bool
	LeftAfterClose []string // files still in Directory after Close (set by Cleanup)
	leftChecked    bool
	Case           *media.Case
	M              *gohlslib.Muxer
	Tracks         []*gohlslib.Track
	StreamIDs      []string // stream ids in muxer order
	StreamOf       []string // per case track: stream id
	Rounds         []*Round
	URIs           map[string]*URIRec
	URIOrder       []string
	Dir            string
	StartErr       string
	Hangs          []string
	Panics         []string
	Problems       []string // harness-level problems (inconclusive)
	EncErrs        []string
	WriteErrs      int
	pending        map[string]*hx.Req
	pendParks      map[string]int
	mu             sync.Mutex
	rotated        []string
	lastText       map[string]string
	Light          bool // keep less (long runs)
	UnknownProbes  []string
	Closed         bool
}

// Options tune a run.
type Options struct {
	Light          bool
	NoFetch        bool // playlists only
	StopOnWriteErr bool
	RoundEvery     int  // observe every n-th write (default 1)
	Delta          bool // Low-Latency: also fetch the delta update of every media playlist
	AltQuery       bool // ask for index.m3u8 a second time with another query string (another viewer)
	// Window: one more observation round inside every segment rotation, between the release of the
	// muxer mutex and the broadcast (hook rotate.unlocked): what a request arriving at that very
	// moment sees. Everything an ordinary round is checked for must hold there too.
	Window bool
}

func streamIDs(c *media.Case) ([]string, []string) {
	if c.Cfg.Variant == media.VarTS {
		so := make([]string, len(c.Tracks))
		for i := range so {
			so[i] = "main"
		}
		return []string{"main"}, so
	}
	var ids []string
	so := make([]string, len(c.Tracks))
	for i, t := range c.Tracks {
		id := fmt.Sprintf("audio%d", i+1)
		if t.Kind.IsVideo() {
			id = fmt.Sprintf("video%d", i+1)
		}
		ids = append(ids, id)
		so[i] = id
	}
	return ids, so
}

// LeadingStream returns the id of the leading stream.
func (h *History) LeadingStream() string {
	return h.StreamOf[h.Case.LeadingTrack()]
}

// Handle forwards to the muxer.
func (h *History) Handle() hx.Handler { return h.M.Handle }

func (h *History) q(name string) string {
	if h.Case.Query != "" {
		return name + "?" + h.Case.Query
	}
	return name
}

// New creates the muxer for a case (Start is called).
func New(c *media.Case, o Options) *History {
	hx.Install()
	h := &History{
		Case: c, URIs: map[string]*URIRec{}, pending: map[string]*hx.Req{}, pendParks: map[string]int{},
		lastText: map[string]string{}, Light: o.Light,
	}
	h.StreamIDs, h.StreamOf = streamIDs(c)
	for i := range c.Tracks {
		h.Tracks = append(h.Tracks, c.Tracks[i].Track())
	}
	m := &gohlslib.Muxer{
		Tracks:             h.Tracks,
		Variant:            gohlslib.MuxerVariant(c.Cfg.Variant),
		SegmentCount:       c.Cfg.SegmentCount,
		SegmentMinDuration: c.Cfg.SegMin,
		PartMinDuration:    c.Cfg.PartMin,
		SegmentMaxSize:     c.Cfg.SegMaxSize,
		OnEncodeError: func(err error) {
			h.mu.Lock()
			h.EncErrs = append(h.EncErrs, err.Error())
			h.mu.Unlock()
		},
	}
	if (uint64(c.Seed)+uint64(c.Index))%2 == 0 {
		// half of the cases leave every parameter that has its documented default value unset
		// (Variant: Low-Latency, SegmentCount 7, SegmentMinDuration 1 s, PartMinDuration 200 ms,
		// SegmentMaxSize 50 MB): Start fills them in
		if m.Variant == gohlslib.MuxerVariantLowLatency {
			m.Variant = 0
			h.DefaultsUsed++
		}
		if m.SegmentCount == 7 {
			m.SegmentCount = 0
			h.DefaultsUsed++
		}
		if m.SegmentMinDuration == time.Second {
			m.SegmentMinDuration = 0
			h.DefaultsUsed++
		}
		if m.PartMinDuration == 200*time.Millisecond {
			m.PartMinDuration = 0
			h.DefaultsUsed++
		}
		if m.SegmentMaxSize == 50*1024*1024 {
			m.SegmentMaxSize = 0
			h.DefaultsUsed++
		}
	}
	if c.Cfg.Disk {
		d, err := os.MkdirTemp("", "vmux")
		if err != nil {
			h.StartErr = err.Error()
			return h
		}
		h.Dir = d
		m.Directory = d
	}
	h.M = m
	if err := m.Start(); err != nil {
		h.StartErr = err.Error()
		return h
	}
	hx.OnKey(m.VerifKey(), func(point string, arg any) {
		if point == "rotate.unlocked" {
			h.mu.Lock()
			h.rotated = append(h.rotated, arg.(string))
			h.mu.Unlock()
			if o.Window && arg.(string) == "segments" && !h.inWindow {
				// (runs in the goroutine of the Write* call that is rotating)
				h.inWindow = true
				h.windowRound(o)
				h.inWindow = false
			}
		}
	})
	return h
}

// windowRound observes from inside a rotation; the rotation marks are left for the round that
// follows the write.
func (h *History) windowRound(o Options) {
	h.mu.Lock()
	saved := append([]string{}, h.rotated...)
	h.mu.Unlock()
	r := h.Observe(h.curWrite, nil, o)
	r.InWindow = true
	h.WindowRounds++
	h.mu.Lock()
	h.rotated = saved
	h.mu.Unlock()
}

// Cleanup closes the muxer (if not yet closed) and removes the temp dir.
func (h *History) Cleanup() {
	if h.M != nil && h.StartErr == "" {
		if !h.Closed {
			h.Closed = true
			done := make(chan struct{})
			go func() { h.M.Close(); close(done) }()
			select {
			case <-done:
			case <-time.After(Watchdog):
			}
		}
		hx.OffKey(h.M.VerifKey())
	}
	if h.Dir != "" {
		if h.Closed && h.StartErr == "" && !h.leftChecked {
			// what one life cycle of the muxer leaves behind in Directory (C18: disk usage stays
			// bounded over any number of life cycles; C07 looks at Close itself)
			h.leftChecked = true
			if ents, err := os.ReadDir(h.Dir); err == nil {
				for _, e := range ents {
					h.LeftAfterClose = append(h.LeftAfterClose, e.Name())
				}
			}
		}
		os.RemoveAll(h.Dir)
	}
}

// ErrWriteStuck is returned by DoWrite when the Write* call did not return.
var ErrWriteStuck = fmt.Errorf("Write* did not return")

var reGoroutineHdr = regexp.MustCompile(`^goroutine (\d+) \[([^\]]+)\]`)

// DoWrite performs write #i of the case. The call runs in its own goroutine: a Write* that does not
// come back within the watchdog while its goroutine is parked on a lock or a condition variable (the
// muxer is deadlocked: nothing else is running that could release it) is recorded in Hangs and
// abandoned. A writer that is merely slow (runnable, in a system call) is waited for.
func (h *History) DoWrite(i int) error {
	if h.writeStuck {
		return ErrWriteStuck
	}
	h.curWrite = i
	type result struct {
		err error
		pnc any
	}
	done := make(chan result, 1)
	gidCh := make(chan int64, 1)
	go func() {
		buf := make([]byte, 64)
		n := runtime.Stack(buf, false)
		var gid int64 = -1
		if m := reGoroutineHdr.FindSubmatch(buf[:n]); m != nil {
			gid, _ = strconv.ParseInt(string(m[1]), 10, 64)
		}
		gidCh <- gid
		var r result
		defer func() {
			if p := recover(); p != nil {
				// handed to the calling goroutine, which panics with it (callers recover there)
				r.pnc = fmt.Sprintf("%v\n%s", p, debug.Stack())
			}
			done <- r
		}()
		r.err = h.doWrite(i)
	}()
	gid := <-gidCh
	for waited := time.Duration(0); ; waited += Watchdog {
		select {
		case r := <-done:
			if r.pnc != nil {
				panic(r.pnc)
			}
			return r.err
		case <-time.After(Watchdog):
		}
		state, frame := goroutineState(gid)
		// parked, and the innermost frame that is not the runtime's or sync's belongs to gohlslib (a
		// writer held inside one of this harness's hooks has a verif/ frame there instead)
		if (strings.HasPrefix(state, "sync.") || strings.HasPrefix(state, "semacquire") || strings.HasPrefix(state, "chan ") || strings.HasPrefix(state, "select")) &&
			strings.Contains(frame, "bluenviron/gohlslib/v2") {
			state += " in " + frame
			h.writeStuck = true
			h.Hangs = append(h.Hangs, fmt.Sprintf("write %d (track %d) did not return after %s: its goroutine is parked [%s]", i, h.Case.Writes[i].Track, waited+Watchdog, state))
			return ErrWriteStuck
		}
		if waited > 10*Watchdog {
			h.writeStuck = true
			h.Hangs = append(h.Hangs, fmt.Sprintf("write %d did not return after %s (goroutine state %q)", i, waited, state))
			return ErrWriteStuck
		}
	}
}

func goroutineState(gid int64) (string, string) {
	buf := make([]byte, 1<<20)
	for {
		n := runtime.Stack(buf, true)
		if n < len(buf) {
			buf = buf[:n]
			break
		}
		buf = make([]byte, len(buf)*2)
	}
	for _, blk := range strings.Split(string(buf), "\n\n") {
		if m := reGoroutineHdr.FindStringSubmatch(blk); m != nil {
			if id, _ := strconv.ParseInt(m[1], 10, 64); id == gid {
				st := m[2]
				if i := strings.IndexByte(st, ','); i >= 0 {
					st = st[:i]
				}
				frame := ""
				for _, l := range strings.Split(blk, "\n")[1:] {
					if strings.HasPrefix(l, "\t") || strings.HasPrefix(l, "runtime.") || strings.HasPrefix(l, "sync.") || strings.HasPrefix(l, "internal/") || strings.HasPrefix(l, "created by") {
						continue
					}
					frame = l
					if i := strings.IndexByte(frame, '('); i > 0 {
						// keep "pkg.(*T).method" / "pkg.func"
						if j := strings.LastIndexByte(frame, '('); j > 0 {
							frame = frame[:j]
						}
					}
					break
				}
				return st, frame
			}
		}
	}
	return "gone", ""
}

func (h *History) doWrite(i int) error {
	w := h.Case.Writes[i]
	t := h.Tracks[w.Track]
	switch h.Case.Tracks[w.Track].Kind {
	case media.H264:
		return h.M.WriteH264(t, w.NTP, w.PTS, w.Data)
	case media.H265:
		return h.M.WriteH265(t, w.NTP, w.PTS, w.Data)
	case media.AV1:
		return h.M.WriteAV1(t, w.NTP, w.PTS, w.Data)
	case media.VP9:
		return h.M.WriteVP9(t, w.NTP, w.PTS, w.Data[0])
	case media.AAC:
		return h.M.WriteMPEG4Audio(t, w.NTP, w.PTS, w.Data)
	case media.Opus:
		return h.M.WriteOpus(t, w.NTP, w.PTS, w.Data)
	}
	return fmt.Errorf("unknown kind")
}

// Run executes the whole case with an observation round after every write.
func Run(c *media.Case, o Options) *History {
	h := New(c, o)
	if h.StartErr != "" {
		return h
	}
	defer h.Cleanup()
	every := o.RoundEvery
	if every <= 0 {
		every = 1
	}
	h.Observe(-1, nil, o)
	for i := range c.Writes {
		var err error
		func() {
			defer func() {
				if p := recover(); p != nil {
					h.Panics = append(h.Panics, fmt.Sprintf("write %d: %v", i, p))
					err = fmt.Errorf("panic: %v", p)
				}
			}()
			err = h.DoWrite(i)
		}()
		if err != nil {
			h.WriteErrs++
		}
		if i%every == every-1 || err != nil || i == len(c.Writes)-1 || len(h.peekRotated()) > 0 {
			h.Observe(i, err, o)
		}
		if len(h.Hangs) > 0 || len(h.Panics) > 0 {
			break
		}
		if err != nil && o.StopOnWriteErr {
			break
		}
	}
	h.finalProbes(o)
	return h
}

func (h *History) peekRotated() []string {
	h.mu.Lock()
	defer h.mu.Unlock()
	return h.rotated
}

func (h *History) takeRotated() []string {
	h.mu.Lock()
	defer h.mu.Unlock()
	r := h.rotated
	h.rotated = nil
	return r
}

// fetchPlaylist implements the pending-request discipline described in DESIGN §4.
func (h *History) fetchPlaylist(name string, rotated bool) *StreamObs {
	if p := h.pending[name]; p != nil {
		if !rotated && !p.IsDone() {
			return &StreamObs{Parked: true}
		}
		st := p.Wait(h.pendParks[name], Watchdog)
		switch st {
		case hx.Done:
			delete(h.pending, name)
			return &StreamObs{Resp: p.Resp}
		case hx.Parked:
			h.pendParks[name] = p.Parks()
			return &StreamObs{Parked: true}
		default:
			h.Hangs = append(h.Hangs, fmt.Sprintf("request %s neither completed nor re-parked after a rotation", name))
			return &StreamObs{Parked: true}
		}
	}
	q, st := hx.Get(h.M.Handle, h.q(name), Watchdog)
	switch st {
	case hx.Done:
		return &StreamObs{Resp: q.Resp}
	case hx.Parked:
		h.pending[name] = q
		h.pendParks[name] = q.Parks()
		return &StreamObs{Parked: true}
	default:
		h.Hangs = append(h.Hangs, fmt.Sprintf("request %s neither completed nor parked", name))
		return &StreamObs{Parked: true}
	}
}

// GetNow fetches a URL that must not block; a park or hang is recorded.
func (h *History) GetNow(name string) *hx.Resp {
	q, st := hx.Get(h.M.Handle, name, Watchdog)
	if st != hx.Done {
		h.Hangs = append(h.Hangs, fmt.Sprintf("request %s did not complete (state %d)", name, st))
		return nil
	}
	if q.Resp.Panic != "" {
		h.Panics = append(h.Panics, fmt.Sprintf("GET %s: %s", name, q.Resp.Panic))
	}
	return q.Resp
}

func baseName(uri string) string {
	if i := strings.IndexByte(uri, '?'); i >= 0 {
		uri = uri[:i]
	}
	return path.Base(uri)
}

// Observe performs one observation round.
func (h *History) Observe(wi int, werr error, o Options) *Round {
	r := &Round{N: len(h.Rounds), WriteIdx: wi, Streams: map[string]*StreamObs{}}
	if werr != nil {
		r.WriteErr = werr.Error()
	}
	r.Rotated = h.takeRotated()
	rot := len(r.Rotated) > 0
	if h.inWindow {
		// the broadcast of this rotation has not happened yet: requests that are waiting for
		// content are still parked, and rightly so
		rot = false
	}
	h.mu.Lock()
	r.EncErrs = append([]string{}, h.EncErrs...)
	h.mu.Unlock()

	r.MV = h.fetchPlaylist("index.m3u8", rot)
	if r.MV.Resp != nil {
		if r.MV.Resp.Panic != "" {
			h.Panics = append(h.Panics, fmt.Sprintf("round %d GET index.m3u8: %s", r.N, r.MV.Resp.Panic))
		}
		if r.MV.Resp.OK() {
			r.MV.PL = m3u8x.Parse(r.MV.Resp.Body)
		}
	}
	if o.AltQuery && r.MV.Resp != nil && r.MV.Resp.OK() {
		// another viewer, between the same two writes: its own token, or none at all
		r.AltQuery = []string{"viewer=bob", "", "t=9&u=x%20y"}[r.N%3]
		if r.AltQuery == "" && h.Case.Query == "" {
			r.AltQuery = "viewer=carol"
		}
		name := "index.m3u8"
		if r.AltQuery != "" {
			name += "?" + r.AltQuery
		}
		r.MVAlt = h.GetNow(name)
	}
	for _, id := range h.StreamIDs {
		name := id + "_stream.m3u8"
		so := h.fetchPlaylist(name, rot)
		r.Streams[id] = so
		if so.Resp == nil {
			continue
		}
		if so.Resp.Panic != "" {
			h.Panics = append(h.Panics, fmt.Sprintf("round %d GET %s: %s", r.N, name, so.Resp.Panic))
		}
		if !so.Resp.OK() {
			continue
		}
		if prev := h.lastParsed[id]; h.Light && prev != nil && h.lastBody[id] == string(so.Resp.Body) {
			so.PL = prev // unchanged since the last round: share the parsed form
		} else {
			so.PL = m3u8x.Parse(so.Resp.Body)
			if h.Light {
				if h.lastParsed == nil {
					h.lastParsed, h.lastBody = map[string]*m3u8x.Playlist{}, map[string]string{}
				}
				h.lastParsed[id], h.lastBody[id] = so.PL, string(so.Resp.Body)
			}
		}
		if o.Delta && h.Case.Cfg.Variant == media.VarLL && so.PL.Media != nil {
			dn := name + "?_HLS_skip=YES"
			if h.Case.Query != "" {
				dn = name + "?" + h.Case.Query + "&_HLS_skip=YES"
			}
			if dr := h.GetNow(dn); dr != nil && dr.OK() {
				so.Delta = m3u8x.Parse(dr.Body)
			}
		}
		if so.PL.Media == nil || o.NoFetch {
			continue
		}
		text := string(so.Resp.Body)
		changed := h.lastText[id] != text
		h.lastText[id] = text
		h.visitListed(r, id, so.PL.Media, changed)
	}
	if h.Dir != "" {
		ents, err := os.ReadDir(h.Dir)
		if err == nil {
			for _, e := range ents {
				r.DirFiles = append(r.DirFiles, e.Name())
			}
		}
	}
	r.PathCount = h.M.VerifPathCount()
	if h.Light {
		// long histories: the parsed form is all the oracles of these monitors look at
		if r.MV != nil && r.MV.Resp != nil {
			r.MV.Resp.Body = nil
		}
		for _, so := range r.Streams {
			if so != nil && so.Resp != nil {
				so.Resp.Body = nil
			}
		}
	}
	h.Rounds = append(h.Rounds, r)
	return r
}

func (h *History) rec(name, stream, kind string, round int) (*URIRec, bool) {
	u, ok := h.URIs[name]
	if !ok {
		u = &URIRec{Name: name, Stream: stream, Kind: kind, FirstRound: round, ExpiredAt: -1}
		h.URIs[name] = u
		h.URIOrder = append(h.URIOrder, name)
	}
	u.LastRound = round
	return u, !ok
}

func (h *History) visitListed(r *Round, stream string, pl *m3u8x.Media, changed bool) {
	listed := map[string]bool{}
	visit := func(uri, kind string, msn int) {
		name := baseName(uri)
		listed[name] = true
		u, isNew := h.rec(name, stream, kind, r.N)
		if isNew {
			u.MSN = msn
		} else if u.MSN != msn && kind != "init" {
			u.Mismatch = append(u.Mismatch, fmt.Sprintf("round %d: URI moved from MSN %d to MSN %d", r.N, u.MSN, msn))
		}
		if u.ExpiredAt >= 0 {
			u.Mismatch = append(u.Mismatch, fmt.Sprintf("round %d: URI listed again after it had left the window", r.N))
			u.ExpiredAt = -1
		}
		if !isNew && !changed && kind != "init" {
			return
		}
		h.fetchURI(r, u, uri)
	}
	if pl.HasMap {
		visit(pl.MapURI, "init", -1)
	}
	for _, s := range pl.Segments {
		if s.Gap {
			continue
		}
		visit(s.URI, "seg", s.MSN)
		for _, p := range s.Parts {
			visit(p.URI, "part", s.MSN)
		}
		if len(s.Parts) > 0 {
			su := h.URIs[baseName(s.URI)]
			if su != nil && !su.ConcatDone && su.Body != nil {
				var cat []byte
				var names []string
				ok := true
				for _, p := range s.Parts {
					pu := h.URIs[baseName(p.URI)]
					if pu == nil || pu.Body == nil {
						ok = false
						break
					}
					cat = append(cat, pu.Body...)
					names = append(names, pu.Name)
				}
				if ok {
					su.ConcatDone = true
					su.ConcatOK = string(cat) == string(su.Body)
					su.PartNames = names
				}
			}
		}
	}
	nextMSN := pl.MediaSequence + len(pl.Segments)
	if pl.Skip != nil {
		nextMSN += *pl.Skip
	}
	for _, p := range pl.TrailingParts {
		visit(p.URI, "part", nextMSN)
	}
	// URIs of this stream that are no longer listed: probe once
	for _, name := range h.URIOrder {
		u := h.URIs[name]
		if u.Stream != stream || u.ExpiredAt >= 0 || listed[name] || u.LastRound >= r.N {
			continue
		}
		if u.Kind == "init" && pl.Skip != nil {
			continue // delta updates omit the map
		}
		if u.Kind != "init" && u.MSN >= pl.MediaSequence {
			continue // still inside the window (parts of older listed segments are not re-listed)
		}
		u.ExpiredAt = r.N
		u.Body = nil
		if u.Kind != "init" {
			h.probeExpired(r.N, u)
		}
	}
}

func (h *History) probeExpired(round int, u *URIRec) {
	resp := h.GetNow(h.q(u.Name))
	if resp == nil {
		return
	}
	if resp.Status == 200 && len(resp.Body) > 0 {
		u.AfterProbe = append(u.AfterProbe, fmt.Sprintf("round %d: expired URI still returns %d bytes", round, len(resp.Body)))
	}
}

func (h *History) fetchURI(r *Round, u *URIRec, uri string) {
	resp := h.GetNow(uri)
	if resp == nil {
		return
	}
	u.Fetches++
	sum := sha256.Sum256(resp.Body)
	ct := resp.Header.Get("Content-Type")
	if u.Fetches == 1 || (u.Kind == "init" && sum != u.Hash && resp.Status == 200) {
		first := u.Fetches == 1
		u.Status = resp.Status
		u.CType = ct
		u.Hash = sum
		u.Len = len(resp.Body)
		u.Body = resp.Body
		if resp.Status != 200 {
			u.Mismatch = append(u.Mismatch, fmt.Sprintf("round %d: status %d", r.N, resp.Status))
			return
		}
		h.decodeURI(r, u, first)
		if h.Light && u.Kind != "init" {
			u.Body = nil
		}
		return
	}
	if u.Fetches == 2 && u.Kind != "init" && u.Status == 200 && !h.inWindow {
		// two clients at once: A has its response under way (blocked in its first body Write, a
		// slow client) while B fetches the same URI completely; both must get the listed bytes
		gate := make(chan struct{})
		a := hx.StartGated(h.M.Handle, h.q(uri), nil, gate)
		select {
		case <-a.AtGate:
			b := h.GetNow(uri)
			close(gate)
			if a.Wait(1<<30, Watchdog) == hx.Done && a.Resp != nil && b != nil {
				h.Overlapped++
				if sha256.Sum256(a.Resp.Body) != u.Hash || sha256.Sum256(b.Body) != u.Hash {
					u.Mismatch = append(u.Mismatch, fmt.Sprintf("round %d: two overlapping fetches returned %d and %d bytes, the listed resource has %d (or other content)", r.N, len(a.Resp.Body), len(b.Body), u.Len))
				}
			}
		case <-time.After(Watchdog):
			close(gate)
		}
	}
	if resp.Status != u.Status {
		u.Mismatch = append(u.Mismatch, fmt.Sprintf("round %d: status changed %d -> %d", r.N, u.Status, resp.Status))
	}
	if sum != u.Hash {
		u.Mismatch = append(u.Mismatch, fmt.Sprintf("round %d: body changed while listed (%d -> %d bytes)", r.N, u.Len, len(resp.Body)))
	}
	if ct != u.CType {
		u.Mismatch = append(u.Mismatch, fmt.Sprintf("round %d: content type changed %q -> %q", r.N, u.CType, ct))
	}
}

func (h *History) trackOfStream(stream string, id int) int {
	if h.Case.Cfg.Variant == media.VarTS {
		return id
	}
	for i, s := range h.StreamOf {
		if s == stream {
			if id == 1 {
				return i
			}
			return -1
		}
	}
	return -1
}

func (h *History) matchSample(track int, payloadNorm []byte) (int, bool) {
	_, idx, ok := media.ParseTag(payloadNorm)
	if !ok || track < 0 {
		return -1, false
	}
	exp := h.Case.Samples(track)
	if idx < 0 || idx >= len(exp) {
		return idx, false
	}
	return idx, string(exp[idx].Norm) == string(payloadNorm)
}

func (h *History) decodeURI(r *Round, u *URIRec, first bool) {
	c := h.Case
	switch u.Kind {
	case "init":
		if u.InitAt == nil {
			u.InitAt = map[int]*InitInfo{}
		}
		ii := &InitInfo{Round: r.N, Hash: u.Hash}
		in, err := decode.Init(u.Body)
		if err != nil {
			ii.Err = err.Error()
		} else {
			for _, t := range in.Tracks {
				ii.Tracks = append(ii.Tracks, InitTrack{ID: t.ID, TimeScale: t.TimeScale, Codec: t.Codec})
			}
		}
		u.InitAt[r.N] = ii
	case "seg", "part":
		if c.Cfg.Variant == media.VarTS {
			ts, err := decode.MPEGTS(u.Body)
			if err != nil {
				u.DecodeErr = err.Error()
			}
			if ts != nil {
				// map TS tracks to case tracks: by codec kind
				for _, s := range ts.Samples {
					ds := DecSample{Track: -1, Idx: -1, DTS: s.DTS, PTS: s.PTS, NUnits: len(s.Units)}
					tr := h.tsTrack(ts, s.TrackID)
					ds.Track = tr
					if tr >= 0 {
						k := c.Tracks[tr].Kind
						if k == media.H264 {
							norm := media.NormH26x(media.H264, s.Units)
							ds.Idx, ds.BytesOK = h.matchSample(tr, norm)
							// payload as the muxer counts it: the NAL units themselves, without the
							// access unit delimiter added by the MPEG-TS writer
							for _, n := range s.Units {
								if len(n) > 0 && n[0]&0x1f != 9 {
									ds.Size += len(n)
								}
							}
						} else {
							ds.BytesOK = true
							for ui, au := range s.Units {
								idx, ok := h.matchSample(tr, au)
								if ui == 0 {
									ds.Idx, ds.FirstIdx = idx, idx
								} else if idx != ds.FirstIdx+ui {
									ok = false
								}
								if !ok {
									ds.BytesOK = false
								}
								ds.Size += len(au)
							}
						}
					}
					u.TSSamples = append(u.TSSamples, ds)
				}
				ts.Samples = nil
				u.TS = ts
			}
			return
		}
		frags, err := decode.FMP4(u.Body)
		if err != nil {
			u.DecodeErr = err.Error()
			return
		}
		for _, f := range frags {
			fi := FragInfo{Seq: f.Seq}
			for _, t := range f.Tracks {
				ti := FragTrackInfo{ID: t.ID, Base: t.BaseTime}
				tr := h.trackOfStream(u.Stream, t.ID)
				for _, s := range t.Samples {
					ds := DecSample{Track: tr, Idx: -1, DTS: s.DTS, PTSOff: s.PTSOffset, Dur: s.Duration, Sync: s.Sync, Size: len(s.Payload)}
					if tr >= 0 {
						norm := s.Payload
						k := c.Tracks[tr].Kind
						if k == media.H264 || k == media.H265 {
							norm = normAVCC(k, s.Payload)
						}
						if k == media.H264 {
							for b := s.Payload; len(b) >= 5; {
								n := int(b[0])<<24 | int(b[1])<<16 | int(b[2])<<8 | int(b[3])
								if n <= 0 || n > len(b)-4 {
									break
								}
								if b[4]&0x1f == 9 {
									ds.AUDs++
								}
								b = b[4+n:]
							}
						}
						ds.Idx, ds.BytesOK = h.matchSample(tr, norm)
					}
					ti.Samples = append(ti.Samples, ds)
				}
				fi.Tracks = append(fi.Tracks, ti)
			}
			u.Frags = append(u.Frags, fi)
		}
	}
}

func (h *History) tsTrack(_ *decode.TS, id int) int {
	for i, t := range h.Case.Tracks {
		if t.Kind.IsVideo() == (id == 0) {
			return i
		}
	}
	return -1
}

func normAVCC(k media.Kind, b []byte) []byte {
	var nalus [][]byte
	for len(b) >= 4 {
		n := int(b[0])<<24 | int(b[1])<<16 | int(b[2])<<8 | int(b[3])
		b = b[4:]
		if n < 0 || n > len(b) {
			return []byte("invalid-avcc")
		}
		nalus = append(nalus, b[:n])
		b = b[n:]
	}
	return media.NormH26x(k, nalus)
}

func (h *History) finalProbes(o Options) {
	if o.NoFetch || len(h.Hangs) > 0 {
		return
	}
	last := len(h.Rounds)
	// every URI that ever left the window must not serve media bytes at the end
	names := append([]string{}, h.URIOrder...)
	sort.Strings(names)
	cnt := 0
	for _, n := range names {
		u := h.URIs[n]
		if u.ExpiredAt < 0 || u.Kind == "init" {
			continue
		}
		cnt++
		if h.Light && cnt > 200 && cnt%17 != 0 {
			continue
		}
		h.probeExpired(last, u)
	}
	// never issued names; in the variants without parts also the part names that would belong to the
	// segments still listed (same prefix, same stream, same number: never advertised by any playlist)
	never := []string{"nonexistent.mp4", "zzz_stream.m3u8", "x_video1_seg99999.mp4", "..", "gap.mp4"}
	if h.Case.Cfg.Variant != media.VarLL {
		derived := 0
		for i := len(names) - 1; i >= 0 && derived < 6; i-- {
			u := h.URIs[names[i]]
			if u.Kind != "seg" || u.ExpiredAt >= 0 {
				continue
			}
			j := strings.LastIndex(names[i], "_seg")
			k := strings.LastIndexByte(names[i], '.')
			if j < 0 || k < j {
				continue
			}
			n := names[i][:j] + "_part" + names[i][j+4:k] + ".mp4"
			if _, listed := h.URIs[n]; !listed {
				never = append(never, n)
				derived++
			}
		}
	}
	for _, n := range never {
		resp := h.GetNow(h.q(n))
		if resp != nil && resp.Status == 200 && len(resp.Body) > 0 {
			h.UnknownProbes = append(h.UnknownProbes, fmt.Sprintf("unknown URI %q returned %d bytes", n, len(resp.Body)))
		}
	}
}
