// Package racelog parses Go race detector logs and de-duplicates the reports.
package racelog

import (
	"os"
	"path/filepath"
	"regexp"
	"sort"
	"strings"
)

// Report is one de-duplicated race report.
type Report struct {
	Key    string // unordered pair of innermost gohlslib functions
	Count  int
	First  string // first report block (truncated)
	Outer  string // pair of outermost entry points
	Stacks [2][]string
	// HarnessOnly: no frame of either stack belongs to gohlslib; such a race is a defect of the
	// monitor, never evidence about the library
	HarnessOnly bool
}

var reFunc = regexp.MustCompile(`^\s+(\S+)\(\)$`)

func stacksOf(block string) [][]string {
	var stacks [][]string
	var cur []string
	in := false
	for _, l := range strings.Split(block, "\n") {
		switch {
		case strings.HasPrefix(l, "Read at ") || strings.HasPrefix(l, "Write at ") || strings.HasPrefix(l, "Previous read at ") || strings.HasPrefix(l, "Previous write at ") ||
			strings.HasPrefix(l, "Atomic") || strings.HasPrefix(l, "Previous atomic"):
			if in {
				stacks = append(stacks, cur)
			}
			cur, in = nil, true
		case strings.HasPrefix(l, "Goroutine "):
			if in {
				stacks = append(stacks, cur)
			}
			in = false
		default:
			if in {
				if m := reFunc.FindStringSubmatch(l); m != nil {
					cur = append(cur, m[1])
				}
			}
		}
	}
	if in {
		stacks = append(stacks, cur)
	}
	return stacks
}

func innermostRepo(stack []string) string {
	for _, f := range stack {
		if strings.Contains(f, "github.com/bluenviron/gohlslib/") {
			f = strings.TrimPrefix(f, "github.com/bluenviron/gohlslib/v2")
			f = strings.TrimPrefix(f, ".")
			f = strings.TrimPrefix(f, "/")
			// strip closure suffixes
			f = regexp.MustCompile(`\.func[0-9.]+$`).ReplaceAllString(f, "")
			f = strings.TrimSuffix(f, "-fm")
			return f
		}
	}
	if len(stack) > 0 {
		return "ext:" + stack[0]
	}
	return "?"
}

func outermost(stack []string) string {
	for i := len(stack) - 1; i >= 0; i-- {
		if strings.Contains(stack[i], "github.com/bluenviron/gohlslib/") {
			return innermostRepo([]string{stack[i]})
		}
	}
	return "?"
}

// Parse reads every file matching prefix* and returns the de-duplicated reports.
func Parse(prefix string) ([]*Report, int) {
	files, _ := filepath.Glob(prefix + "*")
	byKey := map[string]*Report{}
	total := 0
	for _, f := range files {
		b, err := os.ReadFile(f)
		if err != nil {
			continue
		}
		for _, blk := range strings.Split(string(b), "==================") {
			if !strings.Contains(blk, "WARNING: DATA RACE") {
				continue
			}
			total++
			st := stacksOf(blk)
			if len(st) < 2 {
				continue
			}
			a, b2 := innermostRepo(st[0]), innermostRepo(st[1])
			pair := []string{a, b2}
			sort.Strings(pair)
			key := pair[0] + "|" + pair[1]
			r, ok := byKey[key]
			if !ok {
				first := blk
				if len(first) > 3000 {
					first = first[:3000]
				}
				op := []string{outermost(st[0]), outermost(st[1])}
				sort.Strings(op)
				r = &Report{Key: key, First: first, Outer: op[0] + "|" + op[1]}
				r.Stacks[0], r.Stacks[1] = st[0], st[1]
				r.HarnessOnly = true
				for _, stk := range st[:2] {
					for _, fr := range stk {
						if strings.Contains(fr, "github.com/bluenviron/gohlslib/") {
							r.HarnessOnly = false
						}
					}
				}
				byKey[key] = r
			}
			r.Count++
		}
	}
	var out []*Report
	for _, r := range byKey {
		out = append(out, r)
	}
	sort.Slice(out, func(i, j int) bool { return out[i].Key < out[j].Key })
	return out, total
}
