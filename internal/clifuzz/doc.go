// Package clifuzz holds the native fuzz target that feeds arbitrary playlist bytes to a whole Client (C13).
package clifuzz
