package clifuzz

import (
	"net/http"
	"os"
	"path/filepath"
	"strings"
	"testing"
	"time"

	"github.com/bluenviron/mediacommon/v2/pkg/codecs/mpeg4audio"
	"verif/internal/clirun"
	"verif/internal/media"
	"verif/internal/origin"
)

var tsSeg = func() []byte {
	st := &origin.Stream{Container: "ts", Tracks: []*origin.Track{
		{Kind: media.H264, TimeScale: 90000, Params: media.Params{SPS: media.H264SPSVectors[1], PPS: media.H264PPS[0]}, Base: 900000, SampleDur: 1800},
		{Kind: media.AAC, TimeScale: 90000, AAC: mpeg4audio.Config{Type: 2, SampleRate: 48000, ChannelCount: 2}, Base: 900000, SampleDur: 1920}}}
	if err := st.Build(1, 3, 60); err != nil {
		panic(err)
	}
	return st.Segs[0]
}()

func FuzzClientPlaylist(f *testing.F) {
	for _, n := range []string{"FuzzPlaylistUnmarshal", "FuzzMediaUnmarshal", "FuzzMultivariantUnmarshal"} {
		dir := filepath.Join("/repo/pkg/playlist/testdata/fuzz", n)
		ents, _ := os.ReadDir(dir)
		for _, e := range ents {
			if b, err := os.ReadFile(filepath.Join(dir, e.Name())); err == nil {
				f.Add(b)
			}
		}
	}
	f.Add([]byte("#EXTM3U\n#EXT-X-TARGETDURATION:1\n#EXT-X-PLAYLIST-TYPE:VOD\n#EXTINF:0.05,\na.ts\n#EXTINF:0.05,\nb.ts\n#EXT-X-ENDLIST\n"))
	f.Add([]byte("#EXTM3U\n#EXT-X-TARGETDURATION:1\n#EXTINF:0.05,\na.ts\n#EXTINF:0.05,\nb.ts\n#EXTINF:0.05,\nc.ts\n"))
	f.Add([]byte("#EXTM3U\n#EXT-X-STREAM-INF:BANDWIDTH=1,CODECS=\"avc1.42c028,mp4a.40.2\",AUDIO=\"a\"\nx.m3u8\n#EXT-X-MEDIA:TYPE=AUDIO,GROUP-ID=\"a\",NAME=\"n\",URI=\"y.m3u8\"\n"))
	f.Add([]byte("#EXTM3U\n#EXT-X-VERSION:9\n#EXT-X-TARGETDURATION:1\n#EXT-X-SERVER-CONTROL:CAN-BLOCK-RELOAD=YES,CAN-SKIP-UNTIL=6\n#EXT-X-PART-INF:PART-TARGET=0.1\n#EXT-X-MAP:URI=\"i.mp4\",BYTERANGE=\"10@5\"\n#EXTINF:0.05,\na.mp4\n#EXT-X-PRELOAD-HINT:TYPE=PART,URI=\"h.mp4\",BYTERANGE-START=5,BYTERANGE-LENGTH=9\n"))
	f.Fuzz(func(t *testing.T, data []byte) {
		srv := &origin.Server{H: func(req *http.Request, _ int) origin.Response {
			// every playlist-looking URL (and the entry) gets the fuzzed bytes, everything else a valid segment
			if strings.HasSuffix(req.URL.Path, ".m3u8") || strings.HasSuffix(req.URL.Path, "/entry") {
				return origin.Response{Status: 200, Body: data, Kind: "playlist"}
			}
			return origin.Response{Status: 200, Body: tsSeg, Kind: "segment"}
		}}
		run := clirun.New("http://fuzz.example/dir/entry", srv.Client())
		if err := run.C.Start(); err != nil {
			return
		}
		if !run.WaitResult(150 * time.Millisecond) {
			run.C.Close()
			if !run.WaitResult(10 * time.Second) {
				t.Fatalf("client neither ended nor honoured Close (requests %d)", srv.Count())
			}
		}
		if run.WaitErr == nil {
			t.Fatalf("Wait() yielded nil")
		}
		// a client that keeps delivering what the server keeps sending is working, not spinning
		if n := srv.Count(); n > 300 && run.Delivered() < n/2 {
			t.Fatalf("busy loop: %d requests in 150 ms, %d units delivered", n, run.Delivered())
		}
	})
}
