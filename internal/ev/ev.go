// Package ev writes evidence and replay files and reads the known-findings file.
package ev

import (
	"bufio"
	"encoding/json"
	"fmt"
	"os"
	"path/filepath"
	"sort"
	"strings"
	"sync"
	"time"
)

// Root is the /verif directory.
var Root = func() string {
	if r := os.Getenv("VERIF_ROOT"); r != "" {
		return r
	}
	return "/verif"
}()

// Evidence mirrors EVIDENCE.schema.json.
type Evidence struct {
	PropertyID  string         `json:"property_id"`
	Tier        string         `json:"tier"`
	Seed        int64          `json:"seed"`
	Level       string         `json:"level"`
	Coverage    map[string]any `json:"coverage"`
	Assumptions []string       `json:"assumptions,omitempty"`
	WallS       float64        `json:"wall_s"`
	Violations  int            `json:"violations"`
}

// Write writes the evidence file of a property.
func (e *Evidence) Write() error {
	dir := filepath.Join(Root, "evidence")
	if err := os.MkdirAll(dir, 0o755); err != nil {
		return err
	}
	b, err := json.MarshalIndent(e, "", " ")
	if err != nil {
		return err
	}
	return os.WriteFile(filepath.Join(dir, e.PropertyID+".json"), append(b, '\n'), 0o644)
}

// Known is the parsed KNOWN_FINDINGS.txt.
type Known struct {
	Findings map[string]string // key -> description
}

// LoadKnown reads the known-findings file (missing file = empty).
func LoadKnown() *Known {
	k := &Known{Findings: map[string]string{}}
	f, err := os.Open(filepath.Join(Root, "KNOWN_FINDINGS.txt"))
	if err != nil {
		return k
	}
	defer f.Close()
	sc := bufio.NewScanner(f)
	for sc.Scan() {
		l := strings.TrimSpace(sc.Text())
		if !strings.HasPrefix(l, "finding:") {
			continue
		}
		fs := strings.Fields(l)
		key := ""
		for _, f := range fs {
			if strings.HasPrefix(f, "key=") {
				key = strings.TrimPrefix(f, "key=")
			}
		}
		if key != "" {
			k.Findings[key] = l
		}
	}
	return k
}

// Reporter collects violations of one check run and prints the contract lines.
type Reporter struct {
	Prop     string
	known    *Known
	mu       sync.Mutex
	seenKey  map[string]int
	newViol  int
	knownHit map[string]string
	Replays  []string
	start    time.Time
}

// NewReporter allocates a reporter.
func NewReporter(prop string) *Reporter {
	os.MkdirAll(filepath.Join(Root, "replays", prop), 0o755)
	return &Reporter{Prop: prop, known: LoadKnown(), seenKey: map[string]int{}, knownHit: map[string]string{}, start: time.Now()}
}

// Current records the case about to run so that a crash leaves its input on disk.
func (r *Reporter) Current(slot int, v any) {
	b, _ := json.Marshal(v)
	os.WriteFile(filepath.Join(Root, "replays", r.Prop, fmt.Sprintf("current-%d.json", slot)), b, 0o644)
}

// Report handles one violation. replay is the replay descriptor to store.
func (r *Reporter) Report(key, msg string, replay any) {
	r.mu.Lock()
	defer r.mu.Unlock()
	r.seenKey[key]++
	if _, ok := r.known.Findings[key]; ok {
		if _, done := r.knownHit[key]; !done {
			r.knownHit[key] = msg
			fmt.Printf("KNOWN-FINDING: property=%s key=%s %s\n", r.Prop, key, msg)
		}
		return
	}
	r.newViol++
	if r.seenKey[key] > 3 {
		return
	}
	name := strings.NewReplacer("/", "_", " ", "_").Replace(key)
	path := filepath.Join(Root, "replays", r.Prop, fmt.Sprintf("%s-%d.json", name, r.seenKey[key]))
	b, _ := json.MarshalIndent(map[string]any{"property": r.Prop, "key": key, "message": msg, "replay": replay}, "", " ")
	os.WriteFile(path, b, 0o644)
	r.Replays = append(r.Replays, path)
	fmt.Printf("VIOLATION property=%s replay=%s\n", r.Prop, path)
	fmt.Printf("  key=%s %s\n", key, msg)
	if os.Getenv("VERIF_FAILFAST") == "1" {
		// mutation screening aid (tools/mutscreen): stop at the first violation, no evidence file.
		os.Exit(1)
	}
}

// NewViolations returns the number of violations not listed as known findings.
func (r *Reporter) NewViolations() int {
	r.mu.Lock()
	defer r.mu.Unlock()
	return r.newViol
}

// KnownHits returns the known-finding keys that fired.
func (r *Reporter) KnownHits() []string {
	r.mu.Lock()
	defer r.mu.Unlock()
	var out []string
	for k := range r.knownHit {
		out = append(out, k)
	}
	sort.Strings(out)
	return out
}

// Elapsed returns seconds since the reporter was created.
func (r *Reporter) Elapsed() float64 { return time.Since(r.start).Seconds() }
