// Package media contains the codec catalogue, access-unit builders and the
// write-sequence model used by the muxer and client monitors.
package media

import (
	"bytes"
	"fmt"
	"time"

	"github.com/bluenviron/gohlslib/v2"
	"github.com/bluenviron/gohlslib/v2/pkg/codecs"
	"github.com/bluenviron/mediacommon/v2/pkg/codecs/av1"
	"github.com/bluenviron/mediacommon/v2/pkg/codecs/h264"
	"github.com/bluenviron/mediacommon/v2/pkg/codecs/h265"
	"github.com/bluenviron/mediacommon/v2/pkg/codecs/mpeg4audio"
	"github.com/bluenviron/mediacommon/v2/pkg/codecs/opus"
)

// Kind is a codec kind.
type Kind int

// codec kinds.
const (
	H264 Kind = iota
	H265
	AV1
	VP9
	AAC
	Opus
)

func (k Kind) String() string {
	return [...]string{"H264", "H265", "AV1", "VP9", "AAC", "Opus"}[k]
}

// IsVideo reports whether the kind is a video codec.
func (k Kind) IsVideo() bool { return k <= VP9 }

// VP9Params are VP9 parameters.
type VP9Params struct {
	W, H       int
	Profile    uint8
	BitDepth   uint8
	ColorRange bool
}

// Params is one parameter set of a video track.
type Params struct {
	SPS, PPS, VPS []byte // H264 / H265
	Seq           []byte // AV1 sequence header OBU
	VP9           VP9Params
}

// TrackSpec describes a track of a case.
type TrackSpec struct {
	Kind      Kind
	ClockRate int
	Name      string
	Language  string
	IsDefault bool
	AAC       mpeg4audio.Config
	OpusCh    int
	ParamSets []Params // video only; index 0 = initial parameters
	BFrames   bool     // H264 only: POC type 0 stream with reordered frames
}

// H264PPS is the PPS used with all H264 SPS (never parsed by the code under test).
var H264PPS = [][]byte{{0x68, 0xce, 0x38, 0x80}, {0x68, 0xee, 0x3c, 0x80}}

// H265VPS / H265PPS vectors.
var (
	H265VPS = []byte{
		0x40, 0x01, 0x0c, 0x01, 0xff, 0xff, 0x01, 0x60, 0x00, 0x00, 0x03, 0x00, 0x90, 0x00,
		0x00, 0x03, 0x00, 0x00, 0x03, 0x00, 0x78, 0x99, 0x98, 0x09,
	}
	H265VPS2 = []byte{
		0x40, 0x01, 0x0c, 0x01, 0xff, 0xff, 0x01, 0x60, 0x00, 0x00, 0x03, 0x00, 0x90, 0x00,
		0x00, 0x03, 0x00, 0x00, 0x03, 0x00, 0x5d, 0x99, 0x98, 0x09,
	}
	H265PPS = []byte{0x44, 0x01, 0xc1, 0x72, 0xb4, 0x62, 0x40}
)

// H264BFrameSPS is a POC type 0 SPS; H264BFrameGOP is a GOP of slices whose headers make the
// DTS extractor produce PTS != DTS (taken from mediacommon's DTS extractor vectors).
var (
	H264BFrameSPS = []byte{
		0x67, 0x64, 0x00, 0x28, 0xac, 0xd9, 0x40, 0x78,
		0x02, 0x27, 0xe5, 0x84, 0x00, 0x00, 0x03, 0x00,
		0x04, 0x00, 0x00, 0x03, 0x00, 0xf0, 0x3c, 0x60,
		0xc6, 0x58,
	}
	// slice prefix, PTS offset in 1/30 s frames relative to the GOP start
	H264BFrameGOP = []struct {
		Prefix []byte
		PTSPos int
	}{
		{[]byte{0x65, 0x88, 0x84, 0x00, 0x33, 0xff}, 0},
		{[]byte{0x41, 0x9a, 0x21, 0x6c, 0x45, 0xff}, 1},
		{[]byte{0x41, 0x9a, 0x42, 0x3c, 0x21, 0x93}, 2},
		{[]byte{0x41, 0x9a, 0x63, 0x49, 0xe1, 0x0f}, 3},
		{[]byte{0x41, 0x9a, 0x86, 0x49, 0xe1, 0x0f}, 6},
		{[]byte{0x41, 0x9e, 0xa5, 0x42, 0x7f, 0xf9}, 5},
		{[]byte{0x01, 0x9e, 0xc4, 0x69, 0x13, 0xff}, 4},
		{[]byte{0x41, 0x9a, 0xc8, 0x4b, 0xa8, 0x42}, 8},
	}
)

// DefaultParamSets returns the catalogue of parameter sets of a kind.
func DefaultParamSets(k Kind) []Params {
	var out []Params
	switch k {
	case H264:
		for i, s := range H264SPSVectors {
			out = append(out, Params{SPS: s, PPS: H264PPS[i%2]})
		}
	case H265:
		for i, s := range H265SPSVectors {
			v := H265VPS
			if i%2 == 1 {
				v = H265VPS2
			}
			out = append(out, Params{SPS: s, PPS: H265PPS, VPS: v})
		}
		// the same streams declared in the High tier, as an interlaced source, or in a profile space
		// other than 0 (profile_tier_level starts at byte 3 of the NAL unit: space, tier, profile;
		// byte 8 opens the constraint flags). None of the vectors has an emulation prevention byte
		// that early.
		if len(H265SPSVectors) > 0 {
			mod := func(i int, f func(b []byte)) Params {
				// edit the payload without its emulation prevention bytes, then put them back
				raw := H265SPSVectors[i%len(H265SPSVectors)]
				var b []byte
				for j := 0; j < len(raw); j++ {
					if j >= 2 && raw[j] == 3 && raw[j-1] == 0 && raw[j-2] == 0 {
						continue
					}
					b = append(b, raw[j])
				}
				f(b)
				var out []byte
				zeros := 0
				for _, v := range b {
					if zeros >= 2 && v <= 3 {
						out = append(out, 3)
						zeros = 0
					}
					out = append(out, v)
					if v == 0 {
						zeros++
					} else {
						zeros = 0
					}
				}
				return Params{SPS: out, PPS: H265PPS, VPS: H265VPS}
			}
			out = append(out,
				mod(0, func(b []byte) { b[3] |= 0x20 }),                // general_tier_flag
				mod(1, func(b []byte) { b[8] = b[8]&^0x80 | 0x40 }),    // interlaced instead of progressive source
				mod(0, func(b []byte) { b[8] |= 0x20; b[8] &^= 0x10 }), // non-packed constraint, not frame-only
				mod(1, func(b []byte) { b[3] |= 0x40 }),                // general_profile_space 1
				mod(0, func(b []byte) { b[3] |= 0x80 }),                // general_profile_space 2
				mod(1, func(b []byte) { b[3] |= 0xc0 }),                // general_profile_space 3
				// the range-extension constraint flags that follow the four source flags
				mod(0, func(b []byte) { b[8] |= 0x0c }),               // max 12 bit, max 10 bit
				mod(1, func(b []byte) { b[8] |= 0x03; b[9] |= 0x80 }), // max 8 bit, max 4:2:2, max 4:2:0
				mod(0, func(b []byte) { b[9] |= 0x78 }),               // monochrome, intra, one picture only, lower bit rate
				// (max 14 bit exists in the high-throughput profiles only; elsewhere the bit is reserved)
				mod(1, func(b []byte) { b[3] = b[3]&0xe0 | 5; b[9] |= 0x0c }),
				mod(1, func(b []byte) { b[8] |= 0x04; b[9] |= 0x08 }), // max 10 bit + lower bit rate
			)
		}
	case AV1:
		for _, s := range AV1SeqHdrVectors {
			out = append(out, Params{Seq: s})
		}
		// 3840x2160 10-bit sequence headers with a colour description whose three fields differ
		// (HDR10 9/16/9, HLG full range 9/18/9, 5/6/5, 1/13/6 full range)
		for _, s := range [][]byte{
			{0x0a, 0x0f, 0x00, 0x00, 0x00, 0x6a, 0xef, 0xbf, 0xe1, 0xbd, 0xff, 0xf9, 0xd0, 0x91, 0x00, 0x90, 0x40},
			{0x0a, 0x0f, 0x00, 0x00, 0x00, 0x6a, 0xef, 0xbf, 0xe1, 0xbd, 0xff, 0xf9, 0xd0, 0x91, 0x20, 0x98, 0x40},
			{0x0a, 0x0f, 0x00, 0x00, 0x00, 0x6a, 0xef, 0xbf, 0xe1, 0xbd, 0xff, 0xf9, 0xd0, 0x50, 0x60, 0x50, 0x40},
			{0x0a, 0x0f, 0x00, 0x00, 0x00, 0x6a, 0xef, 0xbf, 0xe1, 0xbd, 0xff, 0xf9, 0xd0, 0x10, 0xd0, 0x68, 0x40},
		} {
			out = append(out, Params{Seq: s})
		}
	case VP9:
		out = []Params{
			{VP9: VP9Params{W: 1920, H: 1080, Profile: 0, BitDepth: 8}},
			{VP9: VP9Params{W: 1280, H: 720, Profile: 0, BitDepth: 8}},
			{VP9: VP9Params{W: 640, H: 360, Profile: 2, BitDepth: 10}},
			{VP9: VP9Params{W: 1920, H: 1080, Profile: 2, BitDepth: 12, ColorRange: true}},
			{VP9: VP9Params{W: 1920, H: 1080, Profile: 0, BitDepth: 8, ColorRange: true}},
		}
	}
	return out
}

// Codec builds the gohlslib codec for the initial parameters of the track.
func (t *TrackSpec) Codec() codecs.Codec {
	switch t.Kind {
	case H264:
		p := t.ParamSets[0]
		return &codecs.H264{SPS: p.SPS, PPS: p.PPS}
	case H265:
		p := t.ParamSets[0]
		return &codecs.H265{VPS: p.VPS, SPS: p.SPS, PPS: p.PPS}
	case AV1:
		return &codecs.AV1{SequenceHeader: t.ParamSets[0].Seq}
	case VP9:
		p := t.ParamSets[0].VP9
		return &codecs.VP9{
			Width: p.W, Height: p.H, Profile: p.Profile, BitDepth: p.BitDepth,
			ChromaSubsampling: 1, ColorRange: p.ColorRange,
		}
	case AAC:
		return &codecs.MPEG4Audio{Config: t.AAC}
	case Opus:
		return &codecs.Opus{ChannelCount: t.OpusCh}
	}
	return nil
}

// Track builds the gohlslib Track.
func (t *TrackSpec) Track() *gohlslib.Track {
	return &gohlslib.Track{
		Codec:     t.Codec(),
		ClockRate: t.ClockRate,
		Name:      t.Name,
		Language:  t.Language,
		IsDefault: t.IsDefault,
	}
}

// NaturalRate is the timescale the fMP4 init segment declares for the track.
func (t *TrackSpec) NaturalRate() int {
	switch t.Kind {
	case AAC:
		return t.AAC.SampleRate
	case Opus:
		return 48000
	}
	return 90000
}

// Tag returns the unique payload tag of sample idx of a track.
func Tag(track int, idx int) []byte {
	return []byte(fmt.Sprintf("T%02d-%08d;", track, idx))
}

// ParseTag extracts (track, idx) from a payload; ok is false when no tag is found.
func ParseTag(b []byte) (int, int, bool) {
	i := bytes.IndexByte(b, 'T')
	for i >= 0 && i+13 <= len(b) {
		var tr, idx int
		if b[i+3] == '-' && b[i+12] == ';' {
			if n, _ := fmt.Sscanf(string(b[i:i+13]), "T%02d-%08d;", &tr, &idx); n == 2 {
				return tr, idx, true
			}
		}
		j := bytes.IndexByte(b[i+1:], 'T')
		if j < 0 {
			break
		}
		i = i + 1 + j
	}
	return 0, 0, false
}

// filler produces n pseudo-random bytes that never contain 0x00 .. 0x03 (so that Annex-B
// start codes and emulation-prevention sequences cannot appear).
func filler(seed uint64, n int) []byte {
	out := make([]byte, n)
	x := seed*0x9E3779B97F4A7C15 + 0x1234567
	for i := range out {
		x ^= x << 13
		x ^= x >> 7
		x ^= x << 17
		out[i] = 0x10 + byte(x%0xE0)
	}
	return out
}

func vp9KeyHeader(p VP9Params) []byte {
	// frame_marker(2)=2, profile_low, profile_high, [reserved if profile 3], show_existing=0,
	// frame_type=0, show_frame=1, error_res=0, sync code, color config, frame size
	var bits []int
	push := func(v uint64, n int) {
		for i := n - 1; i >= 0; i-- {
			bits = append(bits, int((v>>uint(i))&1))
		}
	}
	push(2, 2)
	push(uint64(p.Profile&1), 1)
	push(uint64(p.Profile>>1), 1)
	if p.Profile == 3 {
		push(0, 1)
	}
	push(0, 1) // show_existing_frame
	push(0, 1) // frame_type = key
	push(1, 1) // show_frame
	push(0, 1) // error_resilient
	push(0x49, 8)
	push(0x83, 8)
	push(0x42, 8)
	if p.Profile >= 2 {
		if p.BitDepth == 12 {
			push(1, 1)
		} else {
			push(0, 1)
		}
	}
	push(2, 3) // color_space = BT.709
	if p.ColorRange {
		push(1, 1)
	} else {
		push(0, 1)
	}
	if p.Profile == 1 || p.Profile == 3 {
		push(1, 1)
		push(1, 1)
		push(0, 1)
	}
	push(uint64(p.W-1), 16)
	push(uint64(p.H-1), 16)
	for len(bits)%8 != 0 {
		bits = append(bits, 0)
	}
	out := make([]byte, len(bits)/8)
	for i, b := range bits {
		if b != 0 {
			out[i/8] |= 1 << uint(7-i%8)
		}
	}
	return out
}

func vp9NonKeyHeader(p VP9Params) []byte {
	b := byte(0x80) | (p.Profile&1)<<5 | (p.Profile>>1)<<4
	// profile 3 is not used by the catalogue
	b |= 0 << 3 // show_existing
	b |= 1 << 2 // frame_type = non key
	b |= 1 << 1 // show_frame
	return []byte{b}
}

// Sample is one access unit / packet / frame as the harness expects it to travel.
type Sample struct {
	Track    int
	Idx      int // per-track counter, also in the payload tag
	WriteIdx int // index of the Write call that carried it
	PTS      int64
	DTS      int64 // expected decode time (track clock rate)
	NTP      time.Time
	RA       bool
	ParamIdx int    // parameter set carried by this unit (-1: none)
	Norm     []byte // normalised payload used for comparison
	Size     int    // payload size as counted by the muxer's size limit
	AUDs     int    // access unit delimiters written with the unit (H264)
}

// Write is one Muxer.Write* call.
type Write struct {
	Track   int
	PTS     int64
	NTP     time.Time
	Data    [][]byte
	Samples []int // indices into Case.Samples[track]
}

// NormH26x normalises an H264/H265 access unit: AUD NALUs are dropped, the rest is
// length-prefixed and concatenated.
func NormH26x(k Kind, au [][]byte) []byte {
	var out []byte
	for _, n := range au {
		if len(n) == 0 {
			continue
		}
		if k == H264 && h264.NALUType(n[0]&0x1f) == h264.NALUTypeAccessUnitDelimiter {
			continue
		}
		if k == H265 && h265.NALUType((n[0]>>1)&0x3f) == h265.NALUType_AUD_NUT {
			continue
		}
		out = append(out, byte(len(n)>>24), byte(len(n)>>16), byte(len(n)>>8), byte(len(n)))
		out = append(out, n...)
	}
	return out
}

// NormAV1 normalises a temporal unit to the size-field form.
func NormAV1(tu [][]byte) []byte {
	b, err := av1.Bitstream(tu).Marshal()
	if err != nil {
		return []byte("invalid:" + err.Error())
	}
	return b
}

// Norm normalises the payload of one sample of the given kind.
func Norm(k Kind, data [][]byte) []byte {
	switch k {
	case H264, H265:
		return NormH26x(k, data)
	case AV1:
		return NormAV1(data)
	}
	if len(data) == 0 {
		return nil
	}
	return data[0]
}

// Builder builds access units of one track and keeps the expected-sample list.
type Builder struct {
	Spec     *TrackSpec
	TrackIdx int
	Samples  []Sample

	curParam   int
	h264dts    *h264.DTSExtractor
	h265dts    *h265.DTSExtractor
	dtsStarted bool
}

// NewBuilder allocates a Builder.
func NewBuilder(trackIdx int, spec *TrackSpec) *Builder {
	return &Builder{Spec: spec, TrackIdx: trackIdx}
}

// VideoOpts are the options of one video access unit.
type VideoOpts struct {
	RA              bool
	ParamIdx        int  // parameter set to embed; -1 = none
	Size            int  // filler size
	OBUNoSize       bool // AV1: emit OBUs without size field
	CRA             bool // H265: use CRA_NUT instead of IDR
	BFramePos       int  // H264 B-frame stream: position in the GOP (RA must be position 0)
	PrependAUD      bool
	AV1Delimiter    bool // AV1: the temporal unit opens with a temporal delimiter OBU (as in any raw bitstream)
	VP9ShowExisting bool // VP9: a show_existing_frame frame (a frame header that only names a buffered frame)
}

// Video builds one video access unit and registers the expected sample.
// The returned data is what must be passed to Muxer.Write*.
func (b *Builder) Video(writeIdx int, pts int64, ntp time.Time, o VideoOpts) [][]byte {
	idx := len(b.Samples)
	tag := Tag(b.TrackIdx, idx)
	body := append(append([]byte{}, tag...), filler(uint64(b.TrackIdx)<<32|uint64(idx), o.Size)...)
	var data [][]byte
	k := b.Spec.Kind
	switch k {
	case H264:
		if o.PrependAUD {
			data = append(data, []byte{9, 0xf0})
		}
		if o.ParamIdx >= 0 {
			p := b.Spec.ParamSets[o.ParamIdx]
			data = append(data, p.SPS, p.PPS)
		}
		if b.Spec.BFrames {
			g := H264BFrameGOP[o.BFramePos]
			data = append(data, append(append([]byte{}, g.Prefix...), body...))
		} else if o.RA {
			data = append(data, append([]byte{0x65}, body...))
		} else {
			data = append(data, append([]byte{0x41}, body...))
		}
	case H265:
		if o.ParamIdx >= 0 {
			p := b.Spec.ParamSets[o.ParamIdx]
			data = append(data, p.VPS, p.SPS, p.PPS)
		}
		switch {
		case o.RA && o.CRA:
			data = append(data, append([]byte{byte(h265.NALUType_CRA_NUT) << 1, 1}, body...))
		case o.RA:
			data = append(data, append([]byte{byte(h265.NALUType_IDR_W_RADL) << 1, 1}, body...))
		default:
			data = append(data, append([]byte{byte(h265.NALUType_TRAIL_R) << 1, 1}, body...))
		}
	case AV1:
		if o.AV1Delimiter {
			data = append(data, []byte{2<<3 | 2, 0}) // OBU_TEMPORAL_DELIMITER, has_size_field, size 0
		}
		if o.ParamIdx >= 0 {
			seq := b.Spec.ParamSets[o.ParamIdx].Seq
			data = append(data, seq)
		}
		// OBU_FRAME = 6
		if o.OBUNoSize {
			data = append(data, append([]byte{6 << 3}, body...))
		} else {
			hdr := []byte{6<<3 | 2}
			sz := make([]byte, av1.LEB128(uint32(len(body))).MarshalSize())
			av1.LEB128(uint32(len(body))).MarshalTo(sz)
			data = append(data, append(append(hdr, sz...), body...))
		}
	case VP9:
		p := b.Spec.ParamSets[b.curParam].VP9
		if o.ParamIdx >= 0 {
			p = b.Spec.ParamSets[o.ParamIdx].VP9
		}
		switch {
		case o.RA:
			data = [][]byte{append(vp9KeyHeader(p), body...)}
		case o.VP9ShowExisting:
			// frame_marker, profile, show_existing_frame = 1, frame_to_show_map_idx
			hb := byte(0x80) | (p.Profile&1)<<5 | (p.Profile>>1)<<4 | 1<<3 | byte(idx%8)
			data = [][]byte{append([]byte{hb}, body...)}
		default:
			data = [][]byte{append(vp9NonKeyHeader(p), body...)}
		}
	}
	if o.ParamIdx >= 0 {
		b.curParam = o.ParamIdx
	}

	size := 0
	for _, d := range data {
		size += len(d)
	}
	s := Sample{
		Track: b.TrackIdx, Idx: idx, WriteIdx: writeIdx, PTS: pts, DTS: pts, NTP: ntp,
		RA: o.RA, ParamIdx: o.ParamIdx, Norm: Norm(k, data), Size: size,
	}
	if k == H264 && o.PrependAUD {
		s.AUDs = 1
	}
	if k == AV1 {
		// the muxer stores the marshalled bitstream
		s.Size = len(s.Norm)
	}
	if k == H264 || k == H265 {
		// the fMP4 sample payload is AVCC: 4-byte length + NALU
		s.Size = 0
		for _, d := range data {
			s.Size += 4 + len(d)
		}
	}
	b.Samples = append(b.Samples, s)
	return data
}

// ExpectedDTS computes the DTS of samples [from:] with an independent DTS extractor, feeding
// exactly the units the muxer feeds to its own (those from the first random access unit on).
func (b *Builder) ExpectedDTS(dataOf func(idx int) [][]byte) error {
	switch b.Spec.Kind {
	case H264:
		ex := &h264.DTSExtractor{}
		ex.Initialize()
		started := false
		for i := range b.Samples {
			s := &b.Samples[i]
			if !started {
				if !s.RA {
					continue
				}
				started = true
			}
			d, err := ex.Extract(dataOf(i), s.PTS)
			if err != nil {
				return fmt.Errorf("sample %d: %w", i, err)
			}
			s.DTS = d
		}
	case H265:
		ex := &h265.DTSExtractor{}
		ex.Initialize()
		started := false
		for i := range b.Samples {
			s := &b.Samples[i]
			if !started {
				if !s.RA {
					continue
				}
				started = true
			}
			d, err := ex.Extract(dataOf(i), s.PTS)
			if err != nil {
				return fmt.Errorf("sample %d: %w", i, err)
			}
			s.DTS = d
		}
	}
	return nil
}

// AACWrite builds n access units for one WriteMPEG4Audio call.
func (b *Builder) AACWrite(writeIdx int, pts int64, ntp time.Time, n int, size int) ([][]byte, []int) {
	var data [][]byte
	var idxs []int
	sr := b.Spec.AAC.SampleRate
	for i := 0; i < n; i++ {
		idx := len(b.Samples)
		au := append(append([]byte{}, Tag(b.TrackIdx, idx)...), filler(uint64(b.TrackIdx)<<32|uint64(idx), size)...)
		data = append(data, au)
		auPTS := pts + int64(i)*mpeg4audio.SamplesPerAccessUnit*int64(b.Spec.ClockRate)/int64(sr)
		auNTP := ntp.Add(time.Duration(i) * mpeg4audio.SamplesPerAccessUnit * time.Second / time.Duration(sr))
		b.Samples = append(b.Samples, Sample{
			Track: b.TrackIdx, Idx: idx, WriteIdx: writeIdx, PTS: auPTS, DTS: auPTS, NTP: auNTP,
			RA: true, ParamIdx: -1, Norm: au, Size: len(au),
		})
		idxs = append(idxs, idx)
	}
	return data, idxs
}

// OpusTOC returns a TOC byte for the given configuration number (one frame per packet).
func OpusTOC(config int, stereo bool) byte {
	b := byte(config << 3)
	if stereo {
		b |= 4
	}
	return b
}

// OpusWrite builds n packets for one WriteOpus call.
func (b *Builder) OpusWrite(writeIdx int, pts int64, ntp time.Time, n int, config int, size int) ([][]byte, []int) {
	cfgs := make([]int, n)
	for i := range cfgs {
		cfgs[i] = config
	}
	return b.OpusWriteMixed(writeIdx, pts, ntp, cfgs, size)
}

// OpusWriteMixed builds one WriteOpus call whose packets may have different durations.
func (b *Builder) OpusWriteMixed(writeIdx int, pts int64, ntp time.Time, configs []int, size int) ([][]byte, []int) {
	var data [][]byte
	var idxs []int
	for _, config := range configs {
		idx := len(b.Samples)
		pkt := append([]byte{OpusTOC(config, b.Spec.OpusCh == 2)}, Tag(b.TrackIdx, idx)...)
		pkt = append(pkt, filler(uint64(b.TrackIdx)<<32|uint64(idx), size)...)
		data = append(data, pkt)
		b.Samples = append(b.Samples, Sample{
			Track: b.TrackIdx, Idx: idx, WriteIdx: writeIdx, PTS: pts, DTS: pts, NTP: ntp,
			RA: true, ParamIdx: -1, Norm: pkt, Size: len(pkt),
		})
		idxs = append(idxs, idx)
		d := opus.PacketDuration2(pkt)
		ntp = ntp.Add(time.Duration(d) * time.Second / 48000)
		pts += d
	}
	return data, idxs
}

// OpusPacketTicks is the duration in 48 kHz ticks of a packet with the given config.
func OpusPacketTicks(config int) int64 {
	return opus.PacketDuration2([]byte{OpusTOC(config, false), 0})
}
