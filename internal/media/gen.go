package media

import (
	"fmt"
	"math/rand"
	"sort"
	"strings"
	"time"

	"github.com/bluenviron/mediacommon/v2/pkg/codecs/mpeg4audio"
)

// Variants (numerically equal to gohlslib.MuxerVariant).
const (
	VarTS   = 1
	VarFMP4 = 2
	VarLL   = 3
)

// MuxCfg is the muxer configuration of a case.
type MuxCfg struct {
	Variant      int
	SegmentCount int
	SegMin       time.Duration
	PartMin      time.Duration
	SegMaxSize   uint64
	Disk         bool
}

// Case is a generated muxer workload.
type Case struct {
	Seed     int64
	Index    int
	Profile  string
	Cfg      MuxCfg
	Tracks   []TrackSpec
	Writes   []Write
	Builders []*Builder
	Features map[string]bool
	Query    string // raw query used on requests ("" = none)
	// ParamWrites are the writes that carry parameter sets only (no picture): no sample, but the
	// track's current parameters change (profile mv)
	ParamWrites []ParamWrite
}

// ParamWrite is a write that carries parameter sets and no picture.
type ParamWrite struct{ Track, WriteIdx, ParamIdx int }

// Samples returns the expected samples of a track.
func (c *Case) Samples(track int) []Sample { return c.Builders[track].Samples }

// LeadingTrack returns the index of the leading track (first video, else first).
func (c *Case) LeadingTrack() int {
	for i, t := range c.Tracks {
		if t.Kind.IsVideo() {
			return i
		}
	}
	return 0
}

// Sig is a coarse signature of the case used to count distinct cases.
func (c *Case) Sig() string {
	var ks []string
	for _, t := range c.Tracks {
		ks = append(ks, fmt.Sprintf("%s@%d", t.Kind, t.ClockRate))
	}
	var fs []string
	for f := range c.Features {
		fs = append(fs, f)
	}
	sort.Strings(fs)
	return fmt.Sprintf("v%d|%s|n%d|seg%v|part%v|disk%v|%s|w%d", c.Cfg.Variant, strings.Join(ks, ","),
		c.Cfg.SegmentCount, c.Cfg.SegMin, c.Cfg.PartMin, c.Cfg.Disk, strings.Join(fs, ","), len(c.Writes)/20)
}

// Describe returns a short human-readable description.
func (c *Case) Describe() map[string]any {
	var ks []string
	for _, t := range c.Tracks {
		ks = append(ks, fmt.Sprintf("%s@%d", t.Kind, t.ClockRate))
	}
	var fs []string
	for f := range c.Features {
		fs = append(fs, f)
	}
	sort.Strings(fs)
	return map[string]any{
		"seed": c.Seed, "index": c.Index, "profile": c.Profile, "variant": c.Cfg.Variant,
		"tracks": ks, "segment_count": c.Cfg.SegmentCount, "seg_min": c.Cfg.SegMin.String(),
		"part_min": c.Cfg.PartMin.String(), "disk": c.Cfg.Disk, "writes": len(c.Writes),
		"features": fs, "seg_max_size": c.Cfg.SegMaxSize,
	}
}

// GenOpts steer the generator towards a property.
type GenOpts struct {
	Profile     string // general | exact | long | regular | size | mv | e2e
	Variant     int    // 0 = random
	MaxWrites   int    // soft cap
	MinSegments int
	MaxSegments int
	ForceDisk   *bool
}

// Opus configurations with 10, 20, 40 and 60 ms (SILK) and 2.5 .. 20 ms (CELT) frames.
var opusMixedCfgs = []int{0, 1, 2, 3, 16, 17, 18, 19}

var aacRates = []int{8000, 11025, 12000, 16000, 22050, 24000, 32000, 44100, 48000, 64000, 88200, 96000}

type trackPlan struct {
	spec     *TrackSpec
	b        *Builder
	isLead   bool
	startSec float64 // start time in seconds
	// video
	frameTicks []int64 // cyclic frame durations
	gop        int
	// audio
	opusCfg    int
	opusMixed  bool
	exactStart *int64 // exact profile: first PTS in ticks
	multiAU    int
}

type event struct {
	t     float64
	order int
	track int
	fn    func(writeIdx int) Write
}

func sign(f float64) float64 {
	if f < 0 {
		return -1
	}
	return 1
}

// Gen generates case #index for the given seed.
func Gen(seed int64, index int, o GenOpts) *Case {
	rng := rand.New(rand.NewSource(seed*1000003 + int64(index)*7919 + 17))
	c := &Case{Seed: seed, Index: index, Profile: o.Profile, Features: map[string]bool{}}
	pick := func(n int) int { return rng.Intn(n) }
	chance := func(p float64) bool { return rng.Float64() < p }

	// ---- variant and tracks
	v := o.Variant
	if v == 0 {
		v = 1 + pick(3)
	}
	if o.Profile == "regular" {
		v = VarLL
	}
	c.Cfg.Variant = v
	var videoKind Kind = -1
	nAudio := 0
	if v == VarTS {
		switch pick(4) {
		case 0:
			videoKind = H264
		case 1:
			nAudio = 1
		default:
			videoKind = H264
			nAudio = 1
		}
	} else {
		r := pick(10)
		switch {
		case r < 2:
			videoKind = -1
		case r < 5:
			videoKind = H264
		case r < 7:
			videoKind = H265
		case r < 8:
			videoKind = AV1
		default:
			videoKind = VP9
		}
		if o.Profile == "e2e" && (uint64(seed)*3+uint64(index)/3)%6 == 0 {
			videoKind = AV1 // (the end-to-end monitor has few cases: one AV1 stream in six)
		}
		nAudio = pick(4)
		if o.Profile == "mv" {
			nAudio = pick(5)
		}
		if videoKind < 0 && nAudio == 0 {
			nAudio = 1
		}
	}
	if o.Profile == "regular" || o.Profile == "exact" {
		if nAudio > 1 {
			nAudio = 1
		}
	}
	// build specs
	var specs []TrackSpec
	if videoKind >= 0 {
		ps := DefaultParamSets(videoKind)
		rng.Shuffle(len(ps), func(i, j int) { ps[i], ps[j] = ps[j], ps[i] })
		ts := TrackSpec{Kind: videoKind, ClockRate: 90000, ParamSets: ps}
		if v == VarTS && chance(0.4) {
			ts.ClockRate = []int{90000, 1000, 30000, 48000, 180000}[pick(5)]
		}
		if videoKind == H264 && ts.ClockRate == 90000 && chance(0.15) && o.Profile != "exact" && o.Profile != "regular" && o.Profile != "size" {
			ts.BFrames = true
			ts.ParamSets = []Params{{SPS: H264BFrameSPS, PPS: H264PPS[0]}}
			c.Features["bframes"] = true
		}
		// Name / Language / IsDefault are documented "for audio renditions only": setting them on
		// the video track is legal and must not influence the renditions
		if chance(0.15) {
			ts.IsDefault = true
			c.Features["video-default-flag"] = true
		}
		if chance(0.1) {
			ts.Name, ts.Language = "videoname", "vv"
		}
		specs = append(specs, ts)
	}
	defaultGiven := false
	for i := 0; i < nAudio; i++ {
		var ts TrackSpec
		if v == VarTS || chance(0.6) {
			sr := aacRates[pick(len(aacRates))]
			if chance(0.5) {
				sr = []int{44100, 48000}[pick(2)]
			}
			ts = TrackSpec{Kind: AAC, ClockRate: sr, AAC: mpeg4audio.Config{Type: 2, SampleRate: sr, ChannelCount: 1 + pick(2)}}
			if sr <= 48000 && (uint64(seed)*7+uint64(index)*3+uint64(i))%4 == 0 {
				// HE-AAC with explicit SBR signalling: the core rate stays the track's clock rate
				ts.AAC.ExtensionType = mpeg4audio.ObjectTypeSBR
				ts.AAC.ExtensionSampleRate = 2 * sr
				c.Features["he-aac"] = true
			}
			if v == VarTS && chance(0.4) {
				ts.ClockRate = []int{90000, 48000, 44100, 1000000}[pick(4)]
			}
		} else {
			ts = TrackSpec{Kind: Opus, ClockRate: 48000, OpusCh: 1 + pick(2)}
		}
		if chance(0.5) {
			ts.Name = []string{"English", "Deutsch", "Français", "commentary", "a b"}[pick(5)] + fmt.Sprint(i)
		}
		if chance(0.5) {
			ts.Language = []string{"en", "de", "fr", "it", "ja"}[pick(5)]
		}
		if !defaultGiven && chance(0.3) {
			ts.IsDefault = true
			defaultGiven = true
		}
		specs = append(specs, ts)
	}
	rng.Shuffle(len(specs), func(i, j int) { specs[i], specs[j] = specs[j], specs[i] })
	c.Tracks = specs
	for i := range c.Tracks {
		c.Builders = append(c.Builders, NewBuilder(i, &c.Tracks[i]))
	}
	lead := c.LeadingTrack()

	// ---- configuration
	minCount := 3
	if v == VarLL {
		minCount = 7
	}
	c.Cfg.SegmentCount = minCount + []int{0, 0, 1, 2, 5}[pick(5)]
	segMins := []time.Duration{200 * time.Millisecond, 333 * time.Millisecond, 500 * time.Millisecond, time.Second, 1001 * time.Millisecond, 2 * time.Second}
	c.Cfg.SegMin = segMins[pick(len(segMins))]
	if o.Profile == "e2e" {
		// segments shorter than 0.5 s included: they used to be announced with TARGETDURATION:0,
		// which the client's decoder rejects (repaired, see KNOWN_FINDINGS.txt)
		c.Cfg.SegMin = []time.Duration{500 * time.Millisecond, 700 * time.Millisecond, time.Second, 300 * time.Millisecond, 400 * time.Millisecond}[pick(5)]
		if c.Cfg.SegmentCount < 7 {
			c.Cfg.SegmentCount = 7
		}
	}
	if v == VarTS && !c.Tracks[lead].Kind.IsVideo() && (o.Profile == "general" || o.Profile == "exact") && (uint64(seed)+uint64(index)/2)%2 == 0 {
		// audio-only MPEG-TS: with the usual SegmentMinDuration the "at least 100 writes" rule decides
		// every cut; here the duration rule does (100 single-unit writes last about 2 s)
		c.Cfg.SegMin = []time.Duration{3 * time.Second, 4 * time.Second, 5 * time.Second}[(uint64(seed)+uint64(index))%3]
		c.Features["audio-ts-duration-rule"] = true
	}
	partMins := []time.Duration{50 * time.Millisecond, 100 * time.Millisecond, 200 * time.Millisecond, 333 * time.Millisecond, 500 * time.Millisecond}
	c.Cfg.PartMin = partMins[pick(len(partMins))]
	gopGrowth := 0
	if (o.Profile == "regular" || o.Profile == "general") && (uint64(seed)*11+uint64(index)*5)%3 == 0 {
		// key-frame placement that grows: one or two GOPs that are shorter than a part (each closes a
		// segment, SegmentMinDuration being half of PartMinDuration here), then GOPs of several parts
		gopGrowth = 1 + int((uint64(seed)+uint64(index))%2)
		c.Cfg.SegMin = c.Cfg.PartMin / 2
		c.Features["gop-growth"] = true
	}
	c.Cfg.SegMaxSize = 50 * 1024 * 1024
	c.Cfg.Disk = chance(0.4)
	if o.ForceDisk != nil {
		c.Cfg.Disk = *o.ForceDisk
	}
	if chance(0.3) {
		c.Query = []string{"token=abc", "a=1&b=2", "k=v%20w"}[pick(3)]
		if (uint64(seed)+uint64(index)/3)%7 == 3 {
			// a query with characters that a client sent unescaped (a double quote, a comma, a space
			// encoded as "+"): whatever the muxer copies into a quoted URI attribute must be escaped
			c.Query = []string{`user=john&token=a"b`, `q=x,y"z&n=1`, `t=a+b"c`}[(uint64(seed)+uint64(index))%3]
			c.Features["query-with-quote"] = true
		}
	}

	// ---- timing plans
	startSec := 0.0
	switch pick(8) {
	case 0:
		startSec = -10
		c.Features["negstart"] = true
	case 1:
		startSec = -float64(pick(9000)) / 1000
		c.Features["negstart"] = true
	case 2:
		startSec = float64(pick(100000)) / 7
	case 3:
		startSec = 95443.7 // 33-bit wrap of the 90 kHz clock happens at ~95443.7 s
		c.Features["wrap33"] = true
	case 6:
		// a stream that has been running for 28.5 h: ticks x 1e9 leaves the int64 range at
		// 9.22e9 ticks (102481 s at 90 kHz, 10 s earlier with the fMP4 offset) within the case
		startSec = 102481.5 - float64(pick(12))
		c.Features["ticks-ns-overflow"] = true
	case 7:
		// running for a month
		startSec = 2.6e6 + float64(pick(100000))/7
		c.Features["late-start"] = true
		if pick(2) == 0 {
			// time stamps taken from the wall clock (seconds since the Unix epoch): 1.5e14 ticks at
			// 90 kHz, beyond what a float64 product of ticks and 1e9 holds exactly
			startSec = 1.7e9 + float64(pick(30000000))
			c.Features["epoch-start"] = true
		}
	}
	segMinSec := c.Cfg.SegMin.Seconds()
	if gopGrowth > 0 {
		segMinSec = 3.5*c.Cfg.PartMin.Seconds() + 0.1 // the long GOPs decide how long the stream must be
	}
	nSegs := o.MinSegments
	if nSegs == 0 {
		nSegs = 4
	}
	maxSegs := o.MaxSegments
	if maxSegs == 0 {
		maxSegs = 10
	}
	nSegs += pick(maxSegs - nSegs + 1)
	totalSec := segMinSec * float64(nSegs) * 1.3

	plans := make([]*trackPlan, len(c.Tracks))
	for i := range c.Tracks {
		sp := &c.Tracks[i]
		p := &trackPlan{spec: sp, b: c.Builders[i], isLead: i == lead, startSec: startSec}
		if i != lead {
			// skew of the non-leading tracks: small, never below -10 s in total
			sk := (rng.Float64() - 0.5) * 0.6
			if chance(0.2) && o.Profile != "e2e" {
				sk = (rng.Float64() - 0.3) * 3
			}
			if o.Profile == "e2e" {
				sk = (rng.Float64() - 0.5) * 0.2
			}
			p.startSec += sk
			if p.startSec < -10 {
				p.startSec = -10
			}
		}
		if sp.Kind.IsVideo() {
			rate := int64(sp.ClockRate)
			base := []int64{rate / 30, rate / 25, rate / 60, rate / 15, rate * 1001 / 30000, rate / 10, rate / 5}[pick(7)]
			if base == 0 {
				base = 1
			}
			switch {
			case o.Profile == "regular" || chance(0.5):
				p.frameTicks = []int64{base}
			case chance(0.5):
				p.frameTicks = []int64{base, base + 1, base - 1, base}
				c.Features["jitter"] = true
			default:
				n := 3 + pick(5)
				for k := 0; k < n; k++ {
					p.frameTicks = append(p.frameTicks, 1+rng.Int63n(3*base))
				}
				if chance(0.3) && o.Profile != "e2e" {
					p.frameTicks[pick(n)] = 0 // equal consecutive DTS
					c.Features["zerodur"] = true
				}
				c.Features["irregular"] = true
			}
			fsec := float64(base) / float64(rate)
			// GOP length relative to SegmentMinDuration
			rel := []float64{0.5, 1, 1, 2, 0.33, 1.5}[pick(6)]
			p.gop = int(rel*segMinSec/fsec + 0.5)
			if p.gop < 1 {
				p.gop = 1
			}
			if sp.BFrames {
				p.frameTicks = []int64{rate / 30}
				p.gop = len(H264BFrameGOP)
			}
		} else if sp.Kind == Opus {
			p.opusCfg = []int{1, 16 + 3, 16 + 2, 3, 16 + 1, 12 + 1, 2}[pick(7)]
			if chance(0.3) {
				p.multiAU = 2 + pick(3)
				c.Features["multiau"] = true
				if chance(0.5) && o.Profile != "regular" {
					p.opusMixed = true
					c.Features["opus-mixed-durations"] = true
				}
			}
		} else {
			if chance(0.3) {
				p.multiAU = 2 + pick(3)
				c.Features["multiau"] = true
			}
		}
		plans[i] = p
	}

	// ---- profile-specific shaping of the leading video track
	lp := plans[lead]
	if (o.Profile == "general" || o.Profile == "long") && lp.spec.Kind.IsVideo() && !lp.spec.BFrames && lp.spec.ClockRate == 90000 &&
		gopGrowth == 0 && (uint64(seed)*3+uint64(index))%5 == 2 {
		// segments that last exactly 0.5, 1.5 or 2.5 s: the rounding of EXT-X-TARGETDURATION at the
		// half second (20 fps, a key frame every 10, 30 or 50 frames, SegmentMinDuration below that)
		k := int((uint64(seed) + uint64(index)/5) % 3)
		lp.frameTicks = []int64{4500}
		lp.gop = 10 * (2*k + 1)
		if (index/5)%2 == 0 {
			// half a millisecond above the half second (one frame in every GOP is 45 ticks longer):
			// x.5 exactly is a tie that either rounding may resolve, x.5005 is not
			lp.frameTicks = make([]int64, lp.gop)
			for i := range lp.frameTicks {
				lp.frameTicks[i] = 4500
			}
			lp.frameTicks[lp.gop/2] = 4545
		}
		if c.Cfg.SegMin > 400*time.Millisecond {
			c.Cfg.SegMin = []time.Duration{200 * time.Millisecond, 333 * time.Millisecond, 400 * time.Millisecond}[k]
		}
		segMinSec = float64(lp.gop) * 0.05
		totalSec = segMinSec * float64(nSegs) * 1.3
		delete(c.Features, "jitter")
		delete(c.Features, "irregular")
		delete(c.Features, "zerodur")
		c.Features["half-second-segments"] = true
	}
	if o.Profile == "exact" && lp.spec.Kind.IsVideo() && !lp.spec.BFrames {
		rate := int64(lp.spec.ClockRate)
		// frame duration and start time are integral numbers of nanoseconds, so that "exactly at
		// SegmentMinDuration" is exact for the code under test as well
		g := rate
		for b := int64(1000000000); b != 0; {
			g, b = b, g%b
		}
		step := rate / g // smallest tick count that is an integral number of ns
		base := (rate / 25 / step) * step
		if base == 0 {
			base = step
		}
		lp.startSec = float64(int64(lp.startSec*float64(rate))/step*step) / float64(rate)
		exactStart := int64(lp.startSec*float64(rate)+0.5*sign(lp.startSec)) / step * step
		lp.exactStart = &exactStart
		lp.gop = 5 + pick(20)
		lp.frameTicks = []int64{base}
		gopTicks := base * int64(lp.gop)
		exact := time.Duration(gopTicks) * time.Second / time.Duration(rate)
		switch pick(5) {
		case 0: // key spacing == SegmentMinDuration exactly (when representable)
			c.Cfg.SegMin = exact
			c.Features["exact-eq"] = true
		case 1: // one tick short: one frame of the GOP is 1 tick shorter
			c.Cfg.SegMin = exact
			lp.frameTicks = make([]int64, lp.gop)
			for k := range lp.frameTicks {
				lp.frameTicks[k] = base
			}
			lp.frameTicks[pick(lp.gop)] = base - 1
			c.Features["exact-short"] = true
		case 2: // min duration one ns above the spacing
			c.Cfg.SegMin = exact + 1
			c.Features["exact-plus1ns"] = true
		case 3: // min duration one ns below
			c.Cfg.SegMin = exact - 1
			c.Features["exact-minus1ns"] = true
		case 4:
			c.Cfg.SegMin = exact * 2
			c.Features["exact-double"] = true
		}
		segMinSec = c.Cfg.SegMin.Seconds()
		totalSec = segMinSec * float64(nSegs) * 1.3
	}
	if o.Profile == "regular" {
		c.Cfg.Variant = VarLL
		if c.Cfg.SegmentCount < 7 {
			c.Cfg.SegmentCount = 7
		}
		// PartMinDuration 50 ms .. 2 s, also off the 5 ms grid
		switch pick(4) {
		case 0:
			c.Cfg.PartMin = time.Duration(50+pick(1951)) * time.Millisecond
		case 1:
			c.Cfg.PartMin = time.Duration(10+pick(100)) * 5 * time.Millisecond
		case 2:
			c.Cfg.PartMin = []time.Duration{50, 100, 200, 250, 333, 500, 1000, 2000}[pick(8)] * time.Millisecond
		default:
			c.Cfg.PartMin = time.Duration(50000+pick(450000)) * time.Microsecond
		}
		if lp.spec.Kind.IsVideo() {
			fps := []float64{1, 2, 5, 10, 12, 15, 20, 23.976, 24, 25, 29.97, 30, 48, 50, 59.94, 60, 90, 100, 119.88, 120, 7, 13}[pick(22)]
			ticks := int64(float64(lp.spec.ClockRate)/fps + 0.5)
			lp.frameTicks = []int64{ticks}
			fsec := float64(ticks) / float64(lp.spec.ClockRate)
			rel := []float64{0.5, 1, 1, 2, 3, 1.5}[pick(6)]
			lp.gop = int(rel*c.Cfg.SegMin.Seconds()/fsec + 0.5)
			if lp.gop < 1 {
				lp.gop = 1
			}
			c.Features[fmt.Sprintf("fps-%v", fps)] = true
		}
		// enough media for >= 3 segments and several parts per segment
		need := 4 * c.Cfg.PartMin.Seconds() * 3
		if totalSec < need {
			totalSec = need
		}
		if lp.spec.Kind.IsVideo() {
			g := float64(lp.gop) * float64(lp.frameTicks[0]) / float64(lp.spec.ClockRate)
			if totalSec < 4.5*g {
				totalSec = 4.5 * g
			}
		}
		if totalSec > 120 {
			totalSec = 120
		}
	}
	if o.Profile == "size" {
		c.Cfg.SegMaxSize = uint64(400 + pick(4000))
		c.Features["small-max-size"] = true
	}

	// ---- events
	var events []event
	ord := 0
	ntpBase := time.Date(2023, 5, 17, 10, 0, 0, 0, time.UTC).Add(time.Duration(pick(1000000)) * time.Millisecond)
	if (uint64(seed)+uint64(index)*3)%4 == 1 {
		// the application's wall clock is in a local time zone (time.Now() on a host that is not set
		// to UTC): the instants are what counts
		off := []int{2 * 3600, -(3*3600 + 1800), 5*3600 + 2700, -8 * 3600}[(uint64(seed)+uint64(index))%4]
		ntpBase = ntpBase.In(time.FixedZone("", off))
		c.Features["ntp-zone"] = true
	}
	ntpMode := pick(4) // 0 linear, 1 jitter, 2 arbitrary, 3 linear with a step at every random-access unit
	if o.Profile == "e2e" {
		// paced in real time: wall-clock time advances with the media time, possibly with steps
		// (clock adjustments) at segment boundaries; Low-Latency hints extrapolate, so no steps there
		ntpMode = []int{0, 3}[pick(2)]
		if c.Cfg.Variant == VarLL {
			ntpMode = 0
		}
	}
	if ntpMode == 3 {
		c.Features["ntp-steps"] = true
	}
	ntpOf := func(sec float64) time.Time {
		t := ntpBase.Add(time.Duration((sec - startSec) * float64(time.Second)))
		switch ntpMode {
		case 1:
			t = t.Add(time.Duration(rng.Int63n(3000000)) - 1500000)
		case 2:
			t = ntpBase.Add(time.Duration(rng.Int63n(int64(time.Hour))))
		}
		return t
	}
	if ntpMode == 2 {
		c.Features["ntp-arbitrary"] = true
	}

	for ti, p := range plans {
		ti, p := ti, p
		sp := p.spec
		rate := float64(sp.ClockRate)
		if sp.Kind.IsVideo() {
			pts0 := int64(p.startSec * rate)
			if float64(pts0)/rate < -10 {
				pts0++
			}
			if p.exactStart != nil {
				pts0 = *p.exactStart
				if float64(pts0)/rate < -10 {
					pts0 = int64(-10 * rate)
				}
			}
			midGOP := 0
			if chance(0.25) && !sp.BFrames {
				midGOP = 1 + pick(p.gop+2)
				c.Features["midgop"] = true
			}
			// parameter changes
			nParams := len(sp.ParamSets)
			changeOnRA := map[int]bool{}
			changeOnNonRA := map[int]bool{}
			pChange, pNonRA := 0.45, 0.4
			if o.Profile == "e2e" {
				// the end-to-end monitor has few cases: make parameter changes, and changes carried by a
				// unit that is not a random-access one, frequent
				pChange, pNonRA = 0.7, 0.6
			}
			// (regular profile: half of the cases, changes at random-access units only)
			regularChange := o.Profile == "regular" && (uint64(seed)*5+uint64(index)*3)%2 == 1
			if nParams > 1 && (o.Profile != "regular" && chance(pChange) || regularChange) {
				nch := 1 + pick(3)
				for k := 0; k < nch; k++ {
					changeOnRA[2+pick(nSegs*2+2)] = true
				}
				if chance(0.3) {
					// back-to-back changes
					g := 2 + pick(nSegs)
					changeOnRA[g] = true
					changeOnRA[g+1] = true
					c.Features["param-backtoback"] = true
				}
				c.Features["paramchange"] = true
				if (sp.Kind == H264 || sp.Kind == H265) && !regularChange && chance(pNonRA) {
					changeOnNonRA[1+pick(nSegs*2)] = true
					c.Features["param-nonra"] = true
					if o.Profile == "e2e" && len(changeOnRA)%2 == 1 {
						// the only change of the stream travels with a non-random-access unit, early: a
						// client attached later must see the new parameters
						changeOnRA = map[int]bool{}
						changeOnNonRA = map[int]bool{1 + len(c.Features)%3: true}
						c.Features["param-nonra-only"] = true
					}
				}
			}
			dts := pts0
			curParam := 0
			if nParams > 1 && !sp.BFrames && o.Profile != "regular" && (uint64(seed)*7+uint64(index))%4 == 2 {
				// the parameters the track was configured with are not the ones the stream starts
				// with (placeholders, or a camera that was reconfigured in the meantime)
				curParam = 1 + int((uint64(seed)+uint64(index))%uint64(nParams-1))
				c.Features["configured-params-differ"] = true
			}
			gopIdx := 0
			var ntpStepAcc time.Duration
			frame := 0
			extraRA := chance(0.15)
			// zero-length segment: two consecutive random-access units with the same DTS, the
			// second one with changed parameters
			zeroSegAt := -1
			if nParams > 1 && !sp.BFrames && o.Profile != "regular" && o.Profile != "exact" && o.Profile != "e2e" && chance(0.12) {
				zeroSegAt = 2 + pick(nSegs+1)
			}
			twin := false
			skipRAAt, skipRATwice, skippedTwice := 0, false, false
			if (o.Profile == "general" || o.Profile == "long") && (uint64(seed)*3+uint64(index)*13)%3 == 1 {
				skipRAAt = 2 + int((uint64(seed)+uint64(index)*7)%5)
				skipRATwice = (uint64(seed)+uint64(index))%4 == 0
			}
			for n := 0; ; n++ {
				sec := float64(dts) / rate
				if sec-p.startSec > totalSec {
					break
				}
				pos := n - midGOP
				ra := pos >= 0 && pos%p.gop == 0
				if gopGrowth > 0 && !sp.BFrames && pos >= 0 {
					fsec := float64(p.frameTicks[0]) / rate
					g1 := int(c.Cfg.SegMin.Seconds()/fsec) + 1 // frames of a short GOP: just over SegmentMinDuration
					big := int(3.5*c.Cfg.PartMin.Seconds()/fsec) + 2
					switch {
					case pos <= gopGrowth*g1:
						ra = pos%g1 == 0
					default:
						ra = (pos-gopGrowth*g1)%big == 0
					}
				}
				if extraRA && pos > 0 && !sp.BFrames && rng.Intn(p.gop*3+1) == 0 {
					ra = true
				}
				if twin {
					ra = true
					changeOnRA[gopIdx+1] = true
				}
				// one key frame of the regular grid is missing: that segment lasts two or three GOPs and
				// EXT-X-TARGETDURATION may have to grow while earlier segments (and the initial
				// Low-Latency gaps) are still listed
				if skipRAAt > 0 && ra && pos > 0 && !sp.BFrames && gopGrowth == 0 && (gopIdx == skipRAAt || (skipRATwice && gopIdx == skipRAAt+1 && !skippedTwice)) && !changeOnRA[gopIdx+1] && !twin {
					if gopIdx == skipRAAt+1 {
						skippedTwice = true
					}
					ra = false
					gopIdx++ // keeps the numbering of the planned parameter changes
					c.Features["missing-keyframe"] = true
				}
				vo := VideoOpts{RA: ra, ParamIdx: -1, Size: 10 + pick(120)}
				if ra {
					gopIdx++
					if changeOnRA[gopIdx] && nParams > 1 {
						curParam = (curParam + 1 + pick(nParams-1)) % nParams
					}
					switch sp.Kind {
					case H264, H265:
						// the first RA always carries parameters; later ones usually do
						if gopIdx == 1 || changeOnRA[gopIdx] || chance(0.8) {
							vo.ParamIdx = curParam
						}
					default:
						vo.ParamIdx = curParam
					}
					if sp.Kind == H265 && chance(0.2) {
						vo.CRA = true
					}
				} else if pos > 0 && changeOnNonRA[gopIdx] && (pos%p.gop) == 1+pick(2) && nParams > 1 {
					curParam = (curParam + 1) % nParams
					vo.ParamIdx = curParam
					delete(changeOnNonRA, gopIdx)
				}
				if sp.Kind == AV1 && chance(0.3) {
					vo.OBUNoSize = true
				}
				if sp.Kind == AV1 && ((uint64(seed)*7+uint64(index)/3*5)%3 == 0 || o.Profile == "e2e" && (uint64(seed)+uint64(index)/3)%2 == 0) { // (index%3 selects the variant in C08 / C09; the end-to-end runs have few AV1 cases)
					vo.AV1Delimiter = true
					c.Features["av1-temporal-delimiter"] = true
				}
				if sp.Kind == VP9 && !ra && (n*7+index)%5 == 0 {
					vo.VP9ShowExisting = true
					c.Features["vp9-show-existing"] = true
				}
				if sp.Kind == H264 && chance(0.1) {
					vo.PrependAUD = true
				}
				pts := dts
				if sp.BFrames {
					gp := pos % p.gop
					vo.BFramePos = gp
					vo.RA = gp == 0
					if vo.RA {
						vo.ParamIdx = 0
					}
					gopStart := dts - int64(gp)*p.frameTicks[0]
					pts = gopStart + int64(H264BFrameGOP[gp].PTSPos)*p.frameTicks[0]
				}
				tsec := sec
				voc := vo
				ptsc := pts
				if ntpMode == 3 && vo.RA {
					ntpStepAcc += time.Duration(pick(300)) * time.Millisecond
				}
				stepc := ntpStepAcc
				if o.Profile == "mv" && sp.Kind == H264 && !sp.BFrames && ra && gopIdx > 1 && changeOnRA[gopIdx] && voc.ParamIdx >= 0 && chance(0.5) {
					// the new parameter sets travel in a write of their own (no picture) right before the
					// random-access unit, which does not repeat them
					pidx := voc.ParamIdx
					voc.ParamIdx = -1
					c.Features["params-own-unit"] = true
					events = append(events, event{t: tsec, order: ord, track: ti, fn: func(wi int) Write {
						ps := sp.ParamSets[pidx]
						c.ParamWrites = append(c.ParamWrites, ParamWrite{Track: ti, WriteIdx: wi, ParamIdx: pidx})
						return Write{Track: ti, PTS: ptsc, NTP: ntpOf(tsec).Add(stepc), Data: [][]byte{ps.SPS, ps.PPS}}
					}})
					ord++
				}
				events = append(events, event{t: tsec, order: ord, track: ti, fn: func(wi int) Write {
					ntp := ntpOf(tsec).Add(stepc)
					data := p.b.Video(wi, ptsc, ntp, voc)
					return Write{Track: ti, PTS: ptsc, NTP: ntp, Data: data, Samples: []int{len(p.b.Samples) - 1}}
				}})
				ord++
				if twin {
					twin = false
				} else if ra && gopIdx == zeroSegAt {
					twin = true
					c.Features["zero-length-segment"] = true
					continue // the next unit has the same DTS
				}
				dts += p.frameTicks[frame%len(p.frameTicks)]
				frame++
			}
		} else {
			// audio
			sr := 48000
			perAU := int64(0)
			if sp.Kind == AAC {
				sr = sp.AAC.SampleRate
				perAU = int64(mpeg4audio.SamplesPerAccessUnit) * int64(sp.ClockRate) / int64(sr)
			} else {
				perAU = OpusPacketTicks(p.opusCfg)
			}
			_ = sr
			pts := int64(p.startSec * rate)
			if float64(pts)/rate < -10 {
				pts++
			}
			n := 1
			if p.multiAU > 0 {
				n = p.multiAU
			}
			audioWrites := 0
			var audioStep time.Duration
			for {
				sec := float64(pts) / rate
				if sec-startSec > totalSec {
					break
				}
				tsec := sec
				ptsc := pts
				if ntpMode == 3 && p.isLead && audioWrites%25 == 0 {
					audioStep += time.Duration(pick(300)) * time.Millisecond
				}
				audioWrites++
				stepc := audioStep
				if sp.Kind == AAC {
					events = append(events, event{t: tsec, order: ord, track: ti, fn: func(wi int) Write {
						ntp := ntpOf(tsec).Add(stepc)
						data, idxs := p.b.AACWrite(wi, ptsc, ntp, n, 8+pick(60))
						return Write{Track: ti, PTS: ptsc, NTP: ntp, Data: data, Samples: idxs}
					}})
				} else {
					// packets of one write share the frame size, or (mixed mode) each has its own
					cfgs := make([]int, n)
					adv := int64(0)
					for k := range cfgs {
						cfgs[k] = p.opusCfg
						if p.opusMixed {
							cfgs[k] = opusMixedCfgs[rng.Intn(len(opusMixedCfgs))]
						}
						adv += OpusPacketTicks(cfgs[k])
					}
					events = append(events, event{t: tsec, order: ord, track: ti, fn: func(wi int) Write {
						ntp := ntpOf(tsec).Add(stepc)
						data, idxs := p.b.OpusWriteMixed(wi, ptsc, ntp, cfgs, 8+pick(60))
						return Write{Track: ti, PTS: ptsc, NTP: ntp, Data: data, Samples: idxs}
					}})
					ord++
					pts += adv
					continue
				}
				ord++
				pts += perAU * int64(n)
			}
		}
	}

	// ---- interleaving
	mode := pick(4)
	if o.Profile == "e2e" {
		mode = 0 // paced in real time: DTS-merged
		if (uint64(seed)*7+uint64(index)/3)%3 == 1 { // (index%3 selects the variant in C09)
			mode = 4
		}
	}
	switch mode {
	case 4: // arrival order with audio that lags the video by 70-200 ms (a capture pipeline whose
		// audio path is slower): around every key frame some audio with lower time stamps is
		// written after it
		c.Features["audio-lag"] = true
		lag := 0.07 + float64((uint64(seed)*7+uint64(index))%14)/100
		key := func(e event) float64 {
			if !c.Tracks[e.track].Kind.IsVideo() {
				return e.t + lag
			}
			return e.t
		}
		sort.SliceStable(events, func(i, j int) bool {
			ki, kj := key(events[i]), key(events[j])
			if ki != kj {
				return ki < kj
			}
			return events[i].order < events[j].order
		})
	case 0, 1: // DTS-merged
		sort.SliceStable(events, func(i, j int) bool {
			if events[i].t != events[j].t {
				return events[i].t < events[j].t
			}
			return events[i].order < events[j].order
		})
	case 2: // bursty: merge on coarse time buckets
		c.Features["bursty"] = true
		bucket := 0.1 + rng.Float64()*0.4
		sort.SliceStable(events, func(i, j int) bool {
			bi, bj := int64(events[i].t/bucket), int64(events[j].t/bucket)
			if bi != bj {
				return bi < bj
			}
			return events[i].order < events[j].order
		})
	case 3: // skewed: random jitter on the sort key, order inside a track preserved
		c.Features["skewed"] = true
		keys := make([]float64, len(events))
		for i := range events {
			keys[i] = events[i].t + (rng.Float64()-0.5)*0.3
		}
		idx := make([]int, len(events))
		for i := range idx {
			idx[i] = i
		}
		sort.SliceStable(idx, func(a, b int) bool { return keys[idx[a]] < keys[idx[b]] })
		// the k-th slot taken by a track receives that track's k-th event
		slots := map[int][]int{}
		for slot, ei := range idx {
			slots[events[ei].track] = append(slots[events[ei].track], slot)
		}
		ne := make([]event, len(events))
		next := map[int]int{}
		for i := range events {
			tr := events[i].track
			ne[slots[tr][next[tr]]] = events[i]
			next[tr]++
		}
		events = ne
	}
	if o.MaxWrites > 0 && len(events) > o.MaxWrites {
		events = events[:o.MaxWrites]
	}
	for wi, e := range events {
		c.Writes = append(c.Writes, e.fn(wi))
	}

	// ---- expected DTS
	for ti, b := range c.Builders {
		ti := ti
		// map sample idx -> data
		dataOf := map[int][][]byte{}
		for _, w := range c.Writes {
			if w.Track == ti && c.Tracks[ti].Kind.IsVideo() && len(w.Samples) > 0 {
				dataOf[w.Samples[0]] = w.Data
			}
		}
		if err := b.ExpectedDTS(func(i int) [][]byte { return dataOf[i] }); err != nil {
			c.Features["dts-extract-error"] = true
		}
	}
	return c
}
