package plx

import (
	"fmt"
	"math"
	"reflect"
	"time"

	"github.com/bluenviron/gohlslib/v2/pkg/playlist"
)

type differ struct{ out []string }

func (d *differ) add(path string, a, b any) {
	if len(d.out) < 8 {
		d.out = append(d.out, fmt.Sprintf("%s: %v != %v", path, a, b))
	}
}

func (d *differ) dur(path string, a, b time.Duration) {
	x := a - b
	if x < 0 {
		x = -x
	}
	if x >= 10*time.Microsecond {
		d.add(path, a, b)
	}
}

func (d *differ) durp(path string, a, b *time.Duration) {
	if (a == nil) != (b == nil) {
		d.add(path+"(presence)", a != nil, b != nil)
		return
	}
	if a != nil {
		d.dur(path, *a, *b)
	}
}

func (d *differ) eq(path string, a, b any) {
	if !reflect.DeepEqual(a, b) {
		d.add(path, a, b)
	}
}

func deref(v any) any {
	rv := reflect.ValueOf(v)
	if rv.Kind() == reflect.Ptr {
		if rv.IsNil() {
			return "<nil>"
		}
		return rv.Elem().Interface()
	}
	return v
}

func (d *differ) ptr(path string, a, b any) {
	if !reflect.DeepEqual(deref(a), deref(b)) {
		d.add(path, deref(a), deref(b))
	}
}

func (d *differ) timep(path string, a, b *time.Time) {
	if (a == nil) != (b == nil) {
		d.add(path+"(presence)", a != nil, b != nil)
		return
	}
	if a != nil {
		x := a.Sub(*b)
		if x < 0 {
			x = -x
		}
		if x >= time.Millisecond {
			d.add(path, a.UTC(), b.UTC())
		}
	}
}

func (d *differ) part(path string, a, b *playlist.MediaPart) {
	d.dur(path+".Duration", a.Duration, b.Duration)
	d.eq(path+".URI", a.URI, b.URI)
	d.eq(path+".Independent", a.Independent, b.Independent)
	d.eq(path+".Gap", a.Gap, b.Gap)
	d.ptr(path+".ByteRangeLength", a.ByteRangeLength, b.ByteRangeLength)
	d.ptr(path+".ByteRangeStart", a.ByteRangeStart, b.ByteRangeStart)
}

func (d *differ) parts(path string, a, b []*playlist.MediaPart) {
	if len(a) != len(b) {
		d.add(path+"(len)", len(a), len(b))
		return
	}
	for i := range a {
		d.part(fmt.Sprintf("%s[%d]", path, i), a[i], b[i])
	}
}

// DiffMedia compares two media playlists with the tolerances of C14.
func DiffMedia(a, b *playlist.Media) []string {
	d := &differ{}
	d.eq("Version", a.Version, b.Version)
	d.eq("IndependentSegments", a.IndependentSegments, b.IndependentSegments)
	if (a.Start == nil) != (b.Start == nil) {
		d.add("Start(presence)", a.Start != nil, b.Start != nil)
	} else if a.Start != nil {
		d.dur("Start.TimeOffset", a.Start.TimeOffset, b.Start.TimeOffset)
	}
	d.ptr("AllowCache", a.AllowCache, b.AllowCache)
	d.eq("TargetDuration", a.TargetDuration, b.TargetDuration)
	if (a.ServerControl == nil) != (b.ServerControl == nil) {
		d.add("ServerControl(presence)", a.ServerControl != nil, b.ServerControl != nil)
	} else if a.ServerControl != nil {
		d.eq("ServerControl.CanBlockReload", a.ServerControl.CanBlockReload, b.ServerControl.CanBlockReload)
		d.durp("ServerControl.PartHoldBack", a.ServerControl.PartHoldBack, b.ServerControl.PartHoldBack)
		d.durp("ServerControl.CanSkipUntil", a.ServerControl.CanSkipUntil, b.ServerControl.CanSkipUntil)
	}
	if (a.PartInf == nil) != (b.PartInf == nil) {
		d.add("PartInf(presence)", a.PartInf != nil, b.PartInf != nil)
	} else if a.PartInf != nil {
		d.dur("PartInf.PartTarget", a.PartInf.PartTarget, b.PartInf.PartTarget)
	}
	d.eq("MediaSequence", a.MediaSequence, b.MediaSequence)
	d.ptr("DiscontinuitySequence", a.DiscontinuitySequence, b.DiscontinuitySequence)
	d.ptr("PlaylistType", a.PlaylistType, b.PlaylistType)
	if (a.Map == nil) != (b.Map == nil) {
		d.add("Map(presence)", a.Map != nil, b.Map != nil)
	} else if a.Map != nil {
		d.eq("Map.URI", a.Map.URI, b.Map.URI)
		d.ptr("Map.ByteRangeLength", a.Map.ByteRangeLength, b.Map.ByteRangeLength)
		d.ptr("Map.ByteRangeStart", a.Map.ByteRangeStart, b.Map.ByteRangeStart)
	}
	d.ptr("Skip", a.Skip, b.Skip)
	if len(a.Segments) != len(b.Segments) {
		d.add("Segments(len)", len(a.Segments), len(b.Segments))
	} else {
		for i := range a.Segments {
			p := fmt.Sprintf("Segments[%d]", i)
			x, y := a.Segments[i], b.Segments[i]
			d.dur(p+".Duration", x.Duration, y.Duration)
			d.eq(p+".Title", x.Title, y.Title)
			d.eq(p+".URI", x.URI, y.URI)
			d.eq(p+".Discontinuity", x.Discontinuity, y.Discontinuity)
			d.eq(p+".Gap", x.Gap, y.Gap)
			d.timep(p+".DateTime", x.DateTime, y.DateTime)
			d.ptr(p+".Bitrate", x.Bitrate, y.Bitrate)
			d.ptr(p+".Key", x.Key, y.Key)
			d.ptr(p+".ByteRangeLength", x.ByteRangeLength, y.ByteRangeLength)
			d.ptr(p+".ByteRangeStart", x.ByteRangeStart, y.ByteRangeStart)
			d.parts(p+".Parts", x.Parts, y.Parts)
		}
	}
	d.parts("Parts", a.Parts, b.Parts)
	if (a.PreloadHint == nil) != (b.PreloadHint == nil) {
		d.add("PreloadHint(presence)", a.PreloadHint != nil, b.PreloadHint != nil)
	} else if a.PreloadHint != nil {
		d.eq("PreloadHint.URI", a.PreloadHint.URI, b.PreloadHint.URI)
		d.eq("PreloadHint.ByteRangeStart", a.PreloadHint.ByteRangeStart, b.PreloadHint.ByteRangeStart)
		d.ptr("PreloadHint.ByteRangeLength", a.PreloadHint.ByteRangeLength, b.PreloadHint.ByteRangeLength)
	}
	d.eq("Endlist", a.Endlist, b.Endlist)
	return d.out
}

// DiffMultivariant compares two multivariant playlists with the tolerances of C14.
func DiffMultivariant(a, b *playlist.Multivariant) []string {
	d := &differ{}
	d.eq("Version", a.Version, b.Version)
	d.eq("IndependentSegments", a.IndependentSegments, b.IndependentSegments)
	if (a.Start == nil) != (b.Start == nil) {
		d.add("Start(presence)", a.Start != nil, b.Start != nil)
	} else if a.Start != nil {
		d.dur("Start.TimeOffset", a.Start.TimeOffset, b.Start.TimeOffset)
	}
	if len(a.Variants) != len(b.Variants) {
		d.add("Variants(len)", len(a.Variants), len(b.Variants))
	} else {
		for i := range a.Variants {
			p := fmt.Sprintf("Variants[%d]", i)
			x, y := a.Variants[i], b.Variants[i]
			d.eq(p+".Bandwidth", x.Bandwidth, y.Bandwidth)
			d.eq(p+".Codecs", x.Codecs, y.Codecs)
			d.eq(p+".URI", x.URI, y.URI)
			d.ptr(p+".AverageBandwidth", x.AverageBandwidth, y.AverageBandwidth)
			d.eq(p+".Resolution", x.Resolution, y.Resolution)
			if (x.FrameRate == nil) != (y.FrameRate == nil) {
				d.add(p+".FrameRate(presence)", x.FrameRate != nil, y.FrameRate != nil)
			} else if x.FrameRate != nil && math.Abs(*x.FrameRate-*y.FrameRate) > 0.001 {
				d.add(p+".FrameRate", *x.FrameRate, *y.FrameRate)
			}
			d.eq(p+".Video", x.Video, y.Video)
			d.eq(p+".Audio", x.Audio, y.Audio)
			d.eq(p+".Subtitles", x.Subtitles, y.Subtitles)
			d.eq(p+".ClosedCaptions", x.ClosedCaptions, y.ClosedCaptions)
		}
	}
	if len(a.Renditions) != len(b.Renditions) {
		d.add("Renditions(len)", len(a.Renditions), len(b.Renditions))
	} else {
		for i := range a.Renditions {
			p := fmt.Sprintf("Renditions[%d]", i)
			x, y := a.Renditions[i], b.Renditions[i]
			d.eq(p+".Type", x.Type, y.Type)
			d.eq(p+".GroupID", x.GroupID, y.GroupID)
			d.eq(p+".Name", x.Name, y.Name)
			d.eq(p+".Language", x.Language, y.Language)
			d.eq(p+".Autoselect", x.Autoselect, y.Autoselect)
			d.eq(p+".Default", x.Default, y.Default)
			d.eq(p+".Forced", x.Forced, y.Forced)
			d.ptr(p+".Channels", x.Channels, y.Channels)
			d.ptr(p+".URI", x.URI, y.URI)
			d.ptr(p+".InStreamID", x.InStreamID, y.InStreamID)
		}
	}
	return d.out
}

// PostMedia checks the structural post-conditions callers rely on after a successful decode.
func PostMedia(m *playlist.Media) []string {
	var out []string
	if m.TargetDuration == 0 {
		out = append(out, "TargetDuration is zero")
	}
	if len(m.Segments) == 0 {
		out = append(out, "no segments")
	}
	chkParts := func(where string, ps []*playlist.MediaPart) {
		for i, p := range ps {
			if p == nil {
				out = append(out, fmt.Sprintf("%s part %d is nil", where, i))
				continue
			}
			if p.Duration == 0 {
				out = append(out, fmt.Sprintf("%s part %d has zero duration", where, i))
			}
			if p.URI == "" {
				out = append(out, fmt.Sprintf("%s part %d has no URI", where, i))
			}
		}
	}
	for i, s := range m.Segments {
		if s == nil {
			out = append(out, fmt.Sprintf("segment %d is nil", i))
			continue
		}
		if s.URI == "" {
			out = append(out, fmt.Sprintf("segment %d has no URI", i))
		}
		if s.Duration == 0 {
			out = append(out, fmt.Sprintf("segment %d has zero duration", i))
		}
		chkParts(fmt.Sprintf("segment %d", i), s.Parts)
	}
	chkParts("trailing", m.Parts)
	if m.PartInf != nil && m.PartInf.PartTarget == 0 {
		out = append(out, "PART-TARGET is zero")
	}
	if m.Map != nil && m.Map.URI == "" {
		out = append(out, "map without URI")
	}
	if m.PreloadHint != nil && m.PreloadHint.URI == "" {
		out = append(out, "preload hint without URI")
	}
	return out
}

// PostMultivariant checks the structural post-conditions of a decoded multivariant playlist.
func PostMultivariant(m *playlist.Multivariant) []string {
	var out []string
	if len(m.Variants) == 0 {
		out = append(out, "no variants")
	}
	for i, v := range m.Variants {
		if v == nil {
			out = append(out, fmt.Sprintf("variant %d is nil", i))
			continue
		}
		if v.URI == "" {
			out = append(out, fmt.Sprintf("variant %d has no URI", i))
		}
	}
	for i, r := range m.Renditions {
		if r == nil {
			out = append(out, fmt.Sprintf("rendition %d is nil", i))
			continue
		}
		switch r.Type {
		case playlist.MultivariantRenditionTypeAudio, playlist.MultivariantRenditionTypeVideo,
			playlist.MultivariantRenditionTypeSubtitles, playlist.MultivariantRenditionTypeClosedCaptions:
		default:
			out = append(out, fmt.Sprintf("rendition %d has unknown type %q", i, r.Type))
		}
		if r.GroupID == "" {
			out = append(out, fmt.Sprintf("rendition %d has no group id", i))
		}
	}
	return out
}

// CheckDecoded runs the decoder post-conditions and the re-marshal on a successfully decoded
// playlist; it returns the list of problems.
func CheckDecoded(pl playlist.Playlist) (problems []string) {
	defer func() {
		if p := recover(); p != nil {
			problems = append(problems, fmt.Sprintf("panic: %v", p))
		}
	}()
	switch t := pl.(type) {
	case *playlist.Media:
		problems = append(problems, PostMedia(t)...)
	case *playlist.Multivariant:
		problems = append(problems, PostMultivariant(t)...)
	default:
		problems = append(problems, fmt.Sprintf("unexpected dynamic type %T", pl))
		return
	}
	if _, err := pl.Marshal(); err != nil {
		problems = append(problems, "Marshal of a decoded playlist failed: "+err.Error())
	}
	return
}
