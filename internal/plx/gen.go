// Package plx contains the playlist value generator, the tolerant comparers and the structural
// post-conditions used by the C14 / C15 monitors and fuzz targets.
package plx

import (
	"fmt"
	"math/rand"
	"strings"
	"time"

	"github.com/bluenviron/gohlslib/v2/pkg/playlist"
)

// Gen generates playlist values.
type Gen struct {
	R *rand.Rand
	// Mask selects which optional fields of the focus tag are present (exhaustive enumeration);
	// Focus names the tag ("" = everything random).
	Focus string
	Mask  int
	// EmptyServerControl is set by Media when the value carries an EXT-X-SERVER-CONTROL without any
	// attribute (focus servercontrol, mask 0)
	EmptyServerControl bool
}

func (g *Gen) chance(p float64) bool { return g.R.Float64() < p }

// opt decides the presence of optional field #bit of tag.
func (g *Gen) opt(tag string, bit int) bool {
	if tag == g.Focus {
		return g.Mask&(1<<uint(bit)) != 0
	}
	return g.chance(0.5)
}

var uriChars = "abcdefghijklmnopqrstuvwxyzABCDEFGHIJKLMNOPQRSTUVWXYZ0123456789-._~/?&=%+:@,;"

func (g *Gen) str(alphabet string, min, max int) string {
	n := min + g.R.Intn(max-min+1)
	b := make([]byte, n)
	for i := range b {
		b[i] = alphabet[g.R.Intn(len(alphabet))]
	}
	return string(b)
}

// URILine is a URI usable on its own line.
func (g *Gen) URILine() string {
	s := g.str("abcdefghijklmnopqrstuvwxyz0123456789", 1, 1) + g.str(uriChars, 0, 30)
	if g.chance(0.2) {
		s = "https://example.com/" + s
	}
	if g.chance(0.01) {
		s += "/" + strings.Repeat("seg0", 1030+g.R.Intn(40))
	}
	return s
}

// QuotedStr is any string legal inside a quoted-string.
func (g *Gen) QuotedStr(min int) string {
	alpha := uriChars + " #'!$()*[]{}|<>^`\\"
	s := g.str(alpha, min, 25)
	if g.chance(0.1) {
		s += "é✓"
	}
	if g.chance(0.02) {
		// a data: URI or a long token: longer than the 4 KiB line buffers readers like to use
		s += strings.Repeat("Ab0/", 1030+g.R.Intn(40))
	}
	return s
}

// Dur is a duration on the 10 us grid, never zero.
func (g *Gen) Dur(maxSec int) time.Duration {
	for {
		var d time.Duration
		switch g.R.Intn(4) {
		case 0:
			d = time.Duration(g.R.Intn(maxSec*100000)+1) * 10 * time.Microsecond
		case 1:
			d = time.Duration(g.R.Intn(99)+1) * 10 * time.Microsecond // sub-ms
		case 2:
			d = time.Duration(g.R.Intn(maxSec)+1) * time.Second
		default:
			d = time.Duration(g.R.Intn(maxSec*1000)+1) * time.Millisecond
		}
		if d != 0 {
			return d
		}
	}
}

func (g *Gen) int31() int {
	switch g.R.Intn(5) {
	case 0:
		return 0
	case 1:
		return 1<<31 - 1
	case 2:
		return g.R.Intn(10)
	}
	return g.R.Intn(1 << 31)
}

func (g *Gen) u64() uint64 {
	switch g.R.Intn(5) {
	case 0:
		return 0
	case 1:
		return ^uint64(0)
	case 2:
		return uint64(g.R.Intn(1000))
	}
	return g.R.Uint64()
}

func (g *Gen) timeVal() time.Time {
	zones := []*time.Location{time.UTC, time.FixedZone("", 3600), time.FixedZone("", -7*3600), time.FixedZone("", 5*3600+1800), time.FixedZone("", -(9*3600 + 1800)), time.FixedZone("", 14*3600)}
	sec := int64(g.R.Intn(2000000000))
	ms := int64(g.R.Intn(1000))
	if g.chance(0.2) {
		ms = 0
	}
	return time.Unix(sec, ms*1e6).In(zones[g.R.Intn(len(zones))])
}

func (g *Gen) byteRange(tag string, bit int) (*uint64, *uint64) {
	if !g.opt(tag, bit) {
		return nil, nil
	}
	l := g.u64()
	if g.opt(tag, bit+1) {
		s := g.u64()
		return &l, &s
	}
	return &l, nil
}

func (g *Gen) key() *playlist.MediaKey {
	k := &playlist.MediaKey{}
	switch g.R.Intn(3) {
	case 0:
		k.Method = playlist.MediaKeyMethodNone
		return k
	case 1:
		k.Method = playlist.MediaKeyMethodAES128
	default:
		k.Method = playlist.MediaKeyMethodSampleAES
	}
	k.URI = g.QuotedStr(1)
	if g.opt("key", 0) {
		k.IV = "0x" + g.str("0123456789abcdefABCDEF", 32, 32)
	}
	if g.opt("key", 1) {
		k.KeyFormat = g.QuotedStr(1)
	}
	if g.opt("key", 2) {
		k.KeyFormatVersions = g.str("0123456789/", 1, 5)
	}
	return k
}

func (g *Gen) part() *playlist.MediaPart {
	p := &playlist.MediaPart{Duration: g.Dur(10), URI: g.QuotedStr(1)}
	p.Independent = g.opt("part", 0)
	p.ByteRangeLength, p.ByteRangeStart = g.byteRange("part", 1)
	p.Gap = g.opt("part", 3)
	return p
}

// Media generates a valid media playlist value.
func (g *Gen) Media() *playlist.Media {
	g.EmptyServerControl = false
	m := &playlist.Media{
		Version:        1 + g.R.Intn(10),
		TargetDuration: 1 + g.int31()%(1<<31-1),
		MediaSequence:  g.int31(),
	}
	m.IndependentSegments = g.opt("media", 0)
	if g.opt("media", 1) {
		d := g.Dur(100)
		if g.chance(0.4) {
			d = -d
		}
		m.Start = &playlist.MediaStart{TimeOffset: d}
	}
	if g.opt("media", 2) {
		b := g.chance(0.5)
		m.AllowCache = &b
	}
	if g.opt("media", 3) {
		sc := &playlist.MediaServerControl{}
		sc.CanBlockReload = g.opt("servercontrol", 0)
		if g.opt("servercontrol", 1) {
			d := g.Dur(30)
			sc.PartHoldBack = &d
		}
		if g.opt("servercontrol", 2) {
			d := g.Dur(100)
			sc.CanSkipUntil = &d
		}
		m.ServerControl = sc
	}
	if g.opt("media", 4) {
		m.PartInf = &playlist.MediaPartInf{PartTarget: g.Dur(10)}
	}
	if g.opt("media", 5) {
		v := g.int31()
		m.DiscontinuitySequence = &v
	}
	if g.opt("media", 6) {
		v := playlist.MediaPlaylistType([]string{"EVENT", "VOD"}[g.R.Intn(2)])
		m.PlaylistType = &v
	}
	if g.opt("media", 7) {
		mp := &playlist.MediaMap{URI: g.QuotedStr(1)}
		mp.ByteRangeLength, mp.ByteRangeStart = g.byteRange("map", 0)
		m.Map = mp
	}
	if g.opt("media", 8) {
		m.Skip = &playlist.MediaSkip{SkippedSegments: g.int31()}
	}
	nseg := 1 + g.R.Intn(5)
	var curKey *playlist.MediaKey
	for i := 0; i < nseg; i++ {
		s := &playlist.MediaSegment{Duration: g.Dur(30), URI: g.URILine()}
		if g.opt("segment", 0) {
			s.Title = strings.TrimSpace(g.str(uriChars+" #'\"", 1, 20))
		}
		s.Discontinuity = g.opt("segment", 1)
		s.Gap = g.opt("segment", 2)
		if g.opt("segment", 3) {
			t := g.timeVal()
			s.DateTime = &t
		}
		if g.opt("segment", 4) {
			v := g.int31()
			s.Bitrate = &v
		}
		if g.opt("segment", 5) {
			switch {
			case curKey == nil || g.chance(0.4):
				curKey = g.key()
			case curKey.Method != playlist.MediaKeyMethodNone && g.chance(0.7):
				// key rotation that changes exactly one attribute (e.g. only the IV)
				k := *curKey
				switch g.R.Intn(5) {
				case 0:
					k.IV = "0x" + g.str("0123456789abcdef", 32, 32)
				case 1:
					k.URI = g.QuotedStr(1)
				case 2:
					k.KeyFormat = g.QuotedStr(1)
				case 3:
					k.KeyFormatVersions = g.str("0123456789/", 1, 5)
				default:
					if k.Method == playlist.MediaKeyMethodAES128 {
						k.Method = playlist.MediaKeyMethodSampleAES
					} else {
						k.Method = playlist.MediaKeyMethodAES128
					}
				}
				curKey = &k
			}
		}
		s.Key = curKey
		s.ByteRangeLength, s.ByteRangeStart = g.byteRange("segment", 6)
		if g.opt("segment", 8) {
			for k := 0; k < 1+g.R.Intn(3); k++ {
				s.Parts = append(s.Parts, g.part())
			}
		}
		m.Segments = append(m.Segments, s)
	}
	if g.opt("media", 9) {
		for k := 0; k < 1+g.R.Intn(3); k++ {
			m.Parts = append(m.Parts, g.part())
		}
	}
	if g.opt("media", 10) {
		h := &playlist.MediaPreloadHint{URI: g.QuotedStr(1)}
		if g.opt("hint", 0) {
			h.ByteRangeStart = g.u64()
		}
		if g.opt("hint", 1) {
			v := g.u64()
			h.ByteRangeLength = &v
		}
		m.PreloadHint = h
	}
	m.Endlist = g.opt("media", 11)
	// validity: EXT-X-PART requires EXT-X-PART-INF; an EXT-X-SERVER-CONTROL tag needs an attribute
	hasParts := len(m.Parts) > 0
	for _, s := range m.Segments {
		if len(s.Parts) > 0 {
			hasParts = true
		}
	}
	if hasParts && m.PartInf == nil {
		m.PartInf = &playlist.MediaPartInf{PartTarget: g.Dur(10)}
	}
	if sc := m.ServerControl; sc != nil && !sc.CanBlockReload && sc.PartHoldBack == nil && sc.CanSkipUntil == nil {
		if g.Focus == "servercontrol" {
			// the all-absent subset of the tag: the value is kept (C14 round trip: every subset of
			// optional fields); the caller leaves it out of the grammar clause of C15
			g.EmptyServerControl = true
		} else {
			sc.CanBlockReload = true
		}
	}
	return m
}

func (g *Gen) token() string {
	return g.str("abcdefghijklmnopqrstuvwxyzABCDEFGHIJKLMNOPQRSTUVWXYZ0123456789.-_", 1, 12)
}

// Multivariant generates a valid multivariant playlist value.
func (g *Gen) Multivariant() *playlist.Multivariant {
	m := &playlist.Multivariant{Version: 1 + g.R.Intn(10)}
	m.IndependentSegments = g.opt("multi", 0)
	if g.opt("multi", 1) {
		d := g.Dur(100)
		if g.chance(0.4) {
			d = -d
		}
		m.Start = &playlist.MultivariantStart{TimeOffset: d}
	}
	groups := map[string][]string{}
	nr := 0
	if g.opt("multi", 2) {
		nr = 1 + g.R.Intn(4)
	}
	for i := 0; i < nr; i++ {
		r := &playlist.MultivariantRendition{GroupID: g.QuotedStr(1), Name: g.QuotedStr(1)}
		switch g.R.Intn(4) {
		case 0:
			r.Type = playlist.MultivariantRenditionTypeAudio
			if g.opt("rendition", 0) {
				v := fmt.Sprint(1 + g.R.Intn(8))
				r.Channels = &v
			}
			if g.opt("rendition", 1) {
				v := g.QuotedStr(1)
				r.URI = &v
			}
		case 1:
			r.Type = playlist.MultivariantRenditionTypeVideo
			if g.opt("rendition", 1) {
				v := g.QuotedStr(1)
				r.URI = &v
			}
		case 2:
			r.Type = playlist.MultivariantRenditionTypeSubtitles
			v := g.QuotedStr(1)
			r.URI = &v
		default:
			r.Type = playlist.MultivariantRenditionTypeClosedCaptions
			v := []string{"CC1", "CC2", "SERVICE12"}[g.R.Intn(3)]
			r.InStreamID = &v
		}
		if g.opt("rendition", 2) {
			r.Language = g.token()
		}
		r.Autoselect = g.opt("rendition", 3)
		r.Default = g.opt("rendition", 4)
		r.Forced = g.opt("rendition", 5)
		groups[string(r.Type)] = append(groups[string(r.Type)], r.GroupID)
		m.Renditions = append(m.Renditions, r)
	}
	nv := 1 + g.R.Intn(3)
	for i := 0; i < nv; i++ {
		v := &playlist.MultivariantVariant{Bandwidth: g.int31(), URI: g.URILine()}
		for k := 0; k < 1+g.R.Intn(3); k++ {
			v.Codecs = append(v.Codecs, g.token())
		}
		if g.opt("variant", 0) {
			a := g.int31()
			v.AverageBandwidth = &a
		}
		if g.opt("variant", 1) {
			v.Resolution = fmt.Sprintf("%dx%d", 1+g.R.Intn(8000), 1+g.R.Intn(5000))
		}
		if g.opt("variant", 2) {
			f := float64(g.R.Intn(240000)) / 1000
			v.FrameRate = &f
		}
		pickGroup := func(t string) string {
			gs := groups[t]
			if len(gs) == 0 {
				return ""
			}
			return gs[g.R.Intn(len(gs))]
		}
		if g.opt("variant", 3) {
			v.Video = pickGroup("VIDEO")
		}
		if g.opt("variant", 4) {
			v.Audio = pickGroup("AUDIO")
		}
		if g.opt("variant", 5) {
			v.Subtitles = pickGroup("SUBTITLES")
		}
		if g.opt("variant", 6) {
			v.ClosedCaptions = pickGroup("CLOSED-CAPTIONS")
			if v.ClosedCaptions == "" && g.chance(0.5) {
				v.ClosedCaptions = "NONE"
			}
		}
		m.Variants = append(m.Variants, v)
	}
	return m
}

// FocusTags lists (tag, number of optional-field bits) enumerated exhaustively.
var FocusTags = []struct {
	Tag  string
	Bits int
	Kind string
}{
	{"media", 12, "media"}, {"servercontrol", 3, "media"}, {"segment", 9, "media"}, {"part", 4, "media"},
	{"map", 2, "media"}, {"hint", 2, "media"}, {"key", 3, "media"},
	{"multi", 3, "multi"}, {"variant", 7, "multi"}, {"rendition", 6, "multi"},
}
