// Package origin is an in-process HLS origin: an http.RoundTripper backed by scripted playlists
// and synthesized media, with a request log and a fault injector. No sockets are involved.
package origin

import (
	"bytes"
	"context"
	"fmt"
	"io"
	"net/http"
	"net/url"
	"strconv"
	"strings"
	"sync"
	"sync/atomic"
	"time"

	"verif/internal/hx"
)

// Entry is one logged request.
type Entry struct {
	Index  int
	URL    string
	Range  string
	Call   int64
	Ret    int64
	Status int
	Fault  string
	Kind   string // playlist | init | segment | part | other (set by the handler)
}

// Fault is a fault injected at a request index.
type Fault struct {
	Kind string // status404 | status500 | transport | transport-ctx | transport-deadline | stall | truncate | body-ctx
}

// Response is what a handler returns.
type Response struct {
	Status int
	Body   []byte
	CType  string
	Kind   string
	// Block, when non-nil, is awaited (or the request context) before the response is sent
	Block <-chan struct{}
}

// Handler serves one request.
type Handler func(req *http.Request, idx int) Response

// Server is the in-process origin.
type Server struct {
	H         Handler
	Faults    map[int]Fault
	OnRequest func(idx int, req *http.Request) // called before the handler

	mu     sync.Mutex
	log    []*Entry
	next   atomic.Int64
	Stalls atomic.Int64 // stalled bodies currently blocked
}

// Log returns a copy of the request log.
func (s *Server) Log() []Entry {
	s.mu.Lock()
	defer s.mu.Unlock()
	out := make([]Entry, len(s.log))
	for i, e := range s.log {
		out[i] = *e
	}
	return out
}

// Count returns the number of requests received so far.
func (s *Server) Count() int { return int(s.next.Load()) }

type stallBody struct {
	ctx  context.Context
	head []byte
	s    *Server
	in   bool
}

func (b *stallBody) Read(p []byte) (int, error) {
	if len(b.head) > 0 {
		n := copy(p, b.head)
		b.head = b.head[n:]
		return n, nil
	}
	if !b.in {
		b.in = true
		b.s.Stalls.Add(1)
		defer b.s.Stalls.Add(-1)
	}
	<-b.ctx.Done()
	return 0, b.ctx.Err()
}

func (b *stallBody) Close() error { return nil }

// RoundTrip implements http.RoundTripper.
func (s *Server) RoundTrip(req *http.Request) (*http.Response, error) {
	idx := int(s.next.Add(1) - 1)
	e := &Entry{Index: idx, URL: req.URL.String(), Range: req.Header.Get("Range"), Call: hx.Stamp()}
	s.mu.Lock()
	s.log = append(s.log, e)
	s.mu.Unlock()
	finish := func(status int, fault string) {
		s.mu.Lock()
		e.Ret = hx.Stamp()
		e.Status = status
		e.Fault = fault
		s.mu.Unlock()
	}
	if err := req.Context().Err(); err != nil {
		finish(0, "cancelled")
		return nil, err
	}
	if s.OnRequest != nil {
		s.OnRequest(idx, req)
	}
	f, faulty := s.Faults[idx]
	if faulty {
		switch f.Kind {
		case "transport":
			finish(0, f.Kind)
			return nil, fmt.Errorf("injected transport error")
		case "transport-ctx":
			// the failure of a transport whose own session / dialer context went away: the error chain
			// contains context.Canceled although neither the request nor the client was cancelled
			finish(0, f.Kind)
			return nil, fmt.Errorf("injected transport error: session closed: %w", context.Canceled)
		case "transport-deadline":
			finish(0, f.Kind)
			return nil, fmt.Errorf("injected transport error: dial: %w", context.DeadlineExceeded)
		case "status404", "status500":
			st := 404
			if f.Kind == "status500" {
				st = 500
			}
			finish(st, f.Kind)
			return mkResp(req, st, nil, ""), nil
		case "status503-stall":
			// a gateway that answers 503 and keeps the (chunked) error page open: the status alone is
			// the failure, nobody has to read the body to its end
			finish(503, f.Kind)
			resp := mkResp(req, 503, nil, "text/html")
			resp.Body = &stallBody{ctx: req.Context(), head: []byte("<html>upstream"), s: s}
			resp.ContentLength = -1
			return resp, nil
		}
	}
	r := s.H(req, idx)
	s.mu.Lock()
	e.Kind = r.Kind
	s.mu.Unlock()
	if r.Block != nil {
		select {
		case <-r.Block:
		case <-req.Context().Done():
			finish(0, "cancelled-while-blocked")
			return nil, req.Context().Err()
		}
	}
	body := r.Body
	status := r.Status
	if status == 0 {
		status = 200
	}
	if status == 200 {
		if rg := req.Header.Get("Range"); rg != "" {
			a, b, ok := parseRange(rg)
			if !ok || a > int64(len(body)) {
				finish(416, "")
				return mkResp(req, 416, nil, ""), nil
			}
			if b >= int64(len(body)) {
				b = int64(len(body)) - 1
			}
			body = body[a : b+1]
			status = 206
		}
	}
	if faulty {
		switch f.Kind {
		case "stall":
			finish(status, f.Kind)
			resp := mkResp(req, status, nil, r.CType)
			head := body
			if len(head) > 16 {
				head = head[:16]
			}
			resp.Body = &stallBody{ctx: req.Context(), head: head, s: s}
			resp.ContentLength = -1
			return resp, nil
		case "truncate":
			if len(body) > 1 {
				body = body[:len(body)/2]
			}
		case "body-ctx":
			finish(status, f.Kind)
			resp := mkResp(req, status, nil, r.CType)
			resp.Body = &errBody{head: body[:len(body)/2], err: fmt.Errorf("injected body error: stream reset: %w", context.Canceled)}
			resp.ContentLength = int64(len(body))
			return resp, nil
		}
	}
	finish(status, f.Kind)
	return mkResp(req, status, body, r.CType), nil
}

// errBody delivers head and then fails.
type errBody struct {
	head []byte
	err  error
}

func (b *errBody) Read(p []byte) (int, error) {
	if len(b.head) == 0 {
		return 0, b.err
	}
	n := copy(p, b.head)
	b.head = b.head[n:]
	return n, nil
}

func (b *errBody) Close() error { return nil }

func mkResp(req *http.Request, status int, body []byte, ctype string) *http.Response {
	h := http.Header{}
	if ctype != "" {
		h.Set("Content-Type", ctype)
	}
	return &http.Response{
		Status: strconv.Itoa(status) + " " + http.StatusText(status), StatusCode: status, Proto: "HTTP/1.1", ProtoMajor: 1, ProtoMinor: 1,
		Header: h, Body: io.NopCloser(bytes.NewReader(body)), ContentLength: int64(len(body)), Request: req,
	}
}

func parseRange(s string) (int64, int64, bool) {
	if !strings.HasPrefix(s, "bytes=") {
		return 0, 0, false
	}
	ab := strings.SplitN(strings.TrimPrefix(s, "bytes="), "-", 2)
	if len(ab) != 2 {
		return 0, 0, false
	}
	a, err1 := strconv.ParseInt(ab[0], 10, 64)
	b, err2 := strconv.ParseInt(ab[1], 10, 64)
	if err1 != nil || err2 != nil || a < 0 || b < a {
		return 0, 0, false
	}
	return a, b, true
}

// Client returns an http.Client wired to the server.
func (s *Server) Client() *http.Client {
	return &http.Client{Transport: s}
}

// ---- scripted playlists

// Seg describes one segment of a scripted playlist.
type Seg struct {
	URI        string // as written in the playlist
	DurNS      int64
	PDT        *time.Time
	RangeLen   *uint64
	RangeStart *uint64
	Gap        bool
	Disc       bool
}

// Window is the playlist content returned by one poll.
type Window struct {
	First   int // index into Segs
	Count   int
	Endlist bool
}

// Part is a scripted EXT-X-PART / preload hint (Low-Latency).
type Part struct {
	URI        string
	DurNS      int64
	RangeLen   uint64 // 0: no BYTERANGE
	RangeStart uint64
}

// Playlist is a scripted media playlist.
type Playlist struct {
	URL            string // absolute URL under which it is served
	Segs           []Seg
	BaseMSN        int
	History        []Window
	Type           string
	MapURI         string
	MapRangeLen    *uint64
	MapRangeStart  *uint64
	TargetDuration int
	Version        int
	// OmitRangeStart prints the BYTERANGE offset only for the first listed segment; the others
	// continue the previous sub-range (RFC 8216 4.3.2.2)
	OmitRangeStart bool
	// RangeStartEvery > 0 (with OmitRangeStart): the offset is also printed on every segment whose
	// absolute index is a multiple of it (explicit offsets in the middle of a run)
	RangeStartEvery int
	// Low-Latency
	CanBlockReload bool
	CanSkipUntilNS int64
	PartTargetNS   int64
	// LLHistory: per poll the trailing parts and the hint
	LLParts [][]Part
	LLHint  []string
	// LLHintRange: optional (start, length) of the hinted part inside its resource, per poll
	LLHintRange [][2]uint64

	mu    sync.Mutex
	polls int
	Texts []string // every text served
}

func fmtDur(ns int64) string {
	return fmt.Sprintf("%d.%05d", ns/1e9, (ns%1e9)/1e4)
}

// Polls returns how many times the playlist was served.
func (p *Playlist) Polls() int {
	p.mu.Lock()
	defer p.mu.Unlock()
	return p.polls
}

// Next renders the playlist of the next poll.
func (p *Playlist) Next() (string, int) {
	p.mu.Lock()
	defer p.mu.Unlock()
	k := p.polls
	p.polls++
	if k >= len(p.History) {
		k = len(p.History) - 1
	}
	t := p.render(k)
	p.Texts = append(p.Texts, t)
	return t, k
}

func (p *Playlist) render(k int) string {
	w := p.History[k]
	var b strings.Builder
	b.WriteString("#EXTM3U\n")
	v := p.Version
	if v == 0 {
		v = 6
	}
	fmt.Fprintf(&b, "#EXT-X-VERSION:%d\n", v)
	td := p.TargetDuration
	if td == 0 {
		td = 1
	}
	fmt.Fprintf(&b, "#EXT-X-TARGETDURATION:%d\n", td)
	if !p.CanBlockReload && p.CanSkipUntilNS > 0 {
		// delta updates offered by a server that does not do blocking reload
		b.WriteString("#EXT-X-SERVER-CONTROL:CAN-SKIP-UNTIL=" + fmtDur(p.CanSkipUntilNS) + "\n")
	}
	if p.CanBlockReload {
		b.WriteString("#EXT-X-SERVER-CONTROL:CAN-BLOCK-RELOAD=YES")
		if p.CanSkipUntilNS > 0 {
			b.WriteString(",CAN-SKIP-UNTIL=" + fmtDur(p.CanSkipUntilNS))
		}
		b.WriteString(",PART-HOLD-BACK=" + fmtDur(3*p.PartTargetNS) + "\n")
		b.WriteString("#EXT-X-PART-INF:PART-TARGET=" + fmtDur(p.PartTargetNS) + "\n")
	}
	fmt.Fprintf(&b, "#EXT-X-MEDIA-SEQUENCE:%d\n", p.BaseMSN+w.First)
	if p.Type != "" {
		fmt.Fprintf(&b, "#EXT-X-PLAYLIST-TYPE:%s\n", p.Type)
	}
	if p.MapURI != "" {
		b.WriteString("#EXT-X-MAP:URI=\"" + p.MapURI + "\"")
		if p.MapRangeLen != nil {
			b.WriteString(",BYTERANGE=\"" + strconv.FormatUint(*p.MapRangeLen, 10))
			if p.MapRangeStart != nil {
				b.WriteString("@" + strconv.FormatUint(*p.MapRangeStart, 10))
			}
			b.WriteString("\"")
		}
		b.WriteString("\n")
	}
	for i := w.First; i < w.First+w.Count && i < len(p.Segs); i++ {
		s := p.Segs[i]
		if s.Disc {
			b.WriteString("#EXT-X-DISCONTINUITY\n")
		}
		if s.Gap {
			b.WriteString("#EXT-X-GAP\n")
		}
		if s.PDT != nil {
			b.WriteString("#EXT-X-PROGRAM-DATE-TIME:" + s.PDT.UTC().Format("2006-01-02T15:04:05.000Z") + "\n")
		}
		b.WriteString("#EXTINF:" + fmtDur(s.DurNS) + ",\n")
		if s.RangeLen != nil {
			b.WriteString("#EXT-X-BYTERANGE:" + strconv.FormatUint(*s.RangeLen, 10))
			if s.RangeStart != nil && (!p.OmitRangeStart || i == w.First || (p.RangeStartEvery > 0 && i%p.RangeStartEvery == 0)) {
				b.WriteString("@" + strconv.FormatUint(*s.RangeStart, 10))
			}
			b.WriteString("\n")
		}
		b.WriteString(s.URI + "\n")
	}
	if p.CanBlockReload && k < len(p.LLParts) {
		for _, pt := range p.LLParts[k] {
			br := ""
			if pt.RangeLen > 0 {
				br = fmt.Sprintf(",BYTERANGE=\"%d@%d\"", pt.RangeLen, pt.RangeStart)
			}
			b.WriteString("#EXT-X-PART:DURATION=" + fmtDur(pt.DurNS) + ",URI=\"" + pt.URI + "\"" + br + "\n")
		}
		if k < len(p.LLHint) && p.LLHint[k] != "" {
			br := ""
			if k < len(p.LLHintRange) && p.LLHintRange[k][1] > 0 {
				br = fmt.Sprintf(",BYTERANGE-START=%d,BYTERANGE-LENGTH=%d", p.LLHintRange[k][0], p.LLHintRange[k][1])
			}
			b.WriteString("#EXT-X-PRELOAD-HINT:TYPE=PART,URI=\"" + p.LLHint[k] + "\"" + br + "\n")
		}
	}
	if w.Endlist {
		b.WriteString("#EXT-X-ENDLIST\n")
	}
	return b.String()
}

// Site is a set of playlists and files addressed by absolute URL (without fragment).
type Site struct {
	mu        sync.Mutex
	Playlists map[string]*Playlist // by URL without query
	Files     map[string][]byte    // by URL without query
	Static    map[string]string    // static text (multivariant) by URL without query
	// Sequences: successive texts served for a URL (the last one repeats); a text starting with
	// "\x00404" is served as status 404
	Sequences map[string][]string
	seqPos    map[string]int
	Kinds     map[string]string
}

// NewSite allocates a Site.
func NewSite() *Site {
	return &Site{Playlists: map[string]*Playlist{}, Files: map[string][]byte{}, Static: map[string]string{}, Kinds: map[string]string{},
		Sequences: map[string][]string{}, seqPos: map[string]int{}}
}

func stripQuery(u *url.URL) string {
	c := *u
	c.RawQuery = ""
	c.Fragment = ""
	c.ForceQuery = false
	return c.String()
}

// Handler returns the handler of the site.
func (st *Site) Handler() Handler {
	return func(req *http.Request, _ int) Response {
		key := stripQuery(req.URL)
		st.mu.Lock()
		defer st.mu.Unlock()
		if t, ok := st.Static[key]; ok {
			return Response{Status: 200, Body: []byte(t), CType: "application/vnd.apple.mpegurl", Kind: "playlist"}
		}
		if seq, ok := st.Sequences[key]; ok && len(seq) > 0 {
			i := st.seqPos[key]
			if i >= len(seq) {
				i = len(seq) - 1
			}
			st.seqPos[key] = i + 1
			if strings.HasPrefix(seq[i], "\x00404") {
				return Response{Status: 404, Kind: "playlist"}
			}
			return Response{Status: 200, Body: []byte(seq[i]), CType: "application/vnd.apple.mpegurl", Kind: "playlist"}
		}
		if p, ok := st.Playlists[key]; ok {
			t, _ := p.Next()
			return Response{Status: 200, Body: []byte(t), CType: "application/vnd.apple.mpegurl", Kind: "playlist"}
		}
		if b, ok := st.Files[key]; ok {
			k := st.Kinds[key]
			if k == "" {
				k = "segment"
			}
			return Response{Status: 200, Body: b, CType: "video/mp4", Kind: k}
		}
		return Response{Status: 404, Kind: "other"}
	}
}

// Resolve resolves a URI reference against a base URL (RFC 3986), dropping the query.
func Resolve(base, ref string) string {
	b, err := url.Parse(base)
	if err != nil {
		return ref
	}
	r, err := url.Parse(ref)
	if err != nil {
		return ref
	}
	return stripQuery(b.ResolveReference(r))
}

// ResolveFull resolves keeping the query.
func ResolveFull(base, ref string) string {
	b, err := url.Parse(base)
	if err != nil {
		return ref
	}
	r, err := url.Parse(ref)
	if err != nil {
		return ref
	}
	return b.ResolveReference(r).String()
}
