package origin

import (
	"bytes"
	"fmt"

	"github.com/bluenviron/mediacommon/v2/pkg/codecs/mpeg4audio"
	"github.com/bluenviron/mediacommon/v2/pkg/formats/fmp4"
	"github.com/bluenviron/mediacommon/v2/pkg/formats/fmp4/seekablebuffer"
	"github.com/bluenviron/mediacommon/v2/pkg/formats/mpegts"
	"verif/internal/media"
)

// Sample is one synthesized access unit.
type Sample struct {
	Track int // index in Stream.Tracks
	Idx   int
	DTS   int64 // container time, unwrapped (MPEG-TS values are written modulo 2^33)
	PTS   int64
	Dur   int64
	RA    bool
	Units [][]byte
	Norm  []byte
	Seg   int
	Frag  int
	Order int // position in the container order of the segment
}

// Track is a synthesized track.
type Track struct {
	Kind      media.Kind
	TimeScale int
	AAC       mpeg4audio.Config
	Params    media.Params
	OpusCh    int
	ID        int // fMP4 track id
	Samples   []*Sample
	// generation parameters
	Base      int64 // first DTS
	SampleDur int64
	PTSPat    []int64 // cyclic PTS offsets (multiples of SampleDur), video only
	GOP       int
	Skew      int64 // start offset relative to the leading track, in ticks
}

// Stream is one playlist worth of media (one container, 1..n tracks).
type Stream struct {
	Container string // ts | fmp4
	Tracks    []*Track
	Init      []byte
	Segs      [][]byte
	SegDurNS  []int64
	FragsPer  int
	LeadIn    float64 // seconds of non-leading media carried at the head of the next segment's file
}

func fill(seed uint64, n int) []byte {
	out := make([]byte, n)
	x := seed*0x9E3779B97F4A7C15 + 0xABCDEF
	for i := range out {
		x ^= x << 13
		x ^= x >> 7
		x ^= x << 17
		out[i] = 0x10 + byte(x%0xE0)
	}
	return out
}

// tagBase distinguishes streams so that tags are unique across a whole site.
func mkUnits(k media.Kind, p media.Params, tagTrack, idx int, ra bool, size int) [][]byte {
	body := append(append([]byte{}, media.Tag(tagTrack, idx)...), fill(uint64(tagTrack)<<32|uint64(idx), size)...)
	switch k {
	case media.H264:
		if ra {
			return [][]byte{p.SPS, p.PPS, append([]byte{0x65}, body...)}
		}
		return [][]byte{append([]byte{0x41}, body...)}
	case media.H265:
		if ra {
			return [][]byte{p.VPS, p.SPS, p.PPS, append([]byte{19 << 1, 1}, body...)}
		}
		return [][]byte{append([]byte{1 << 1, 1}, body...)}
	case media.AV1:
		obu := append([]byte{6<<3 | 2, byte(len(body))}, body...)
		if ra {
			return [][]byte{p.Seq, obu}
		}
		return [][]byte{obu}
	case media.VP9:
		if ra {
			return [][]byte{append([]byte{0x82, 0x49, 0x83, 0x42, 0x20, 0x07, 0x7f, 0x04, 0x37, 0x00}, body...)}
		}
		return [][]byte{append([]byte{0x86}, body...)}
	case media.Opus:
		return [][]byte{append([]byte{media.OpusTOC(19, false)}, body...)}
	}
	return [][]byte{body}
}

// Build generates the samples of every track for nSeg segments of segTicksLead ticks of the
// leading track (track 0 of the stream is its leading track if it is video, else the first),
// then encodes the segments. tagBase makes payload tags unique across streams.
func (s *Stream) Build(nSeg int, segLeadSamples int, tagBase int) error {
	lead := s.Tracks[0]
	if s.Container == "ts" {
		// the client only knows H264 and MPEG-4 audio in MPEG-TS
		for _, t := range s.Tracks {
			if t.Kind == media.H264 || t.Kind == media.AAC {
				lead = t
				break
			}
		}
		for _, t := range s.Tracks {
			if t.Kind == media.H264 {
				lead = t
				break
			}
		}
	} else {
		for _, t := range s.Tracks {
			if t.Kind.IsVideo() {
				lead = t
				break
			}
		}
	}
	segTicks := int64(segLeadSamples) * lead.SampleDur
	// time of segment boundaries in seconds relative to the leading base
	for ti, t := range s.Tracks {
		if t.ID == 0 {
			t.ID = ti + 1
		}
		n := 0
		dts := t.Base
		for {
			// segment index by the leading timeline
			relSec := float64(dts-t.Base+t.Skew) / float64(t.TimeScale)
			// LeadIn: the last LeadIn seconds of the other tracks travel in the next segment's file,
			// ahead of its first leading-track unit (what real packagers that interleave by arrival do)
			seg := int((relSec + s.LeadIn) / (float64(segTicks) / float64(lead.TimeScale)))
			if t == lead {
				seg = n / segLeadSamples
			}
			if seg < 0 {
				seg = 0
			}
			if seg >= nSeg {
				break
			}
			ra := true
			pts := dts
			if t.Kind.IsVideo() {
				gop := t.GOP
				if gop <= 0 {
					gop = segLeadSamples
				}
				ra = (n % gop) == 0
				if t == lead && n%segLeadSamples == 0 {
					ra = true
				}
				if len(t.PTSPat) > 0 && !ra {
					pts = dts + t.PTSPat[n%len(t.PTSPat)]*t.SampleDur
				}
			}
			size := 12 + (n*7+ti*3)%90
			sm := &Sample{Track: ti, Idx: n, DTS: dts, PTS: pts, Dur: t.SampleDur, RA: ra, Seg: seg}
			sm.Units = mkUnits(t.Kind, t.Params, tagBase+ti, n, ra, size)
			sm.Norm = media.Norm(t.Kind, sm.Units)
			t.Samples = append(t.Samples, sm)
			n++
			dts += t.SampleDur
		}
	}
	s.SegDurNS = make([]int64, nSeg)
	for i := range s.SegDurNS {
		s.SegDurNS[i] = segTicks * 1e9 / int64(lead.TimeScale)
	}
	if s.Container == "ts" {
		return s.encodeTS(nSeg, lead)
	}
	return s.encodeFMP4(nSeg, lead)
}

type orderedSample struct {
	s    *Sample
	tsec float64
	lead bool
}

func (s *Stream) segOrder(seg int, lead *Track) []*Sample {
	var all []orderedSample
	for _, t := range s.Tracks {
		for _, sm := range t.Samples {
			if sm.Seg == seg {
				all = append(all, orderedSample{sm, float64(sm.DTS-t.Base+t.Skew) / float64(t.TimeScale), t == lead})
			}
		}
	}
	// stable merge by decode time, leading track first on ties
	for i := 1; i < len(all); i++ {
		for j := i; j > 0; j-- {
			a, b := all[j-1], all[j]
			if a.tsec > b.tsec+1e-12 || (abs(a.tsec-b.tsec) <= 1e-12 && !a.lead && b.lead) {
				all[j-1], all[j] = b, a
			} else {
				break
			}
		}
	}
	out := make([]*Sample, len(all))
	for i, o := range all {
		o.s.Order = i
		out[i] = o.s
	}
	return out
}

func abs(f float64) float64 {
	if f < 0 {
		return -f
	}
	return f
}

func (s *Stream) encodeTS(nSeg int, lead *Track) error {
	var tracks []*mpegts.Track
	for _, t := range s.Tracks {
		switch t.Kind {
		case media.H264:
			tracks = append(tracks, &mpegts.Track{Codec: &mpegts.CodecH264{}})
		case media.AAC:
			tracks = append(tracks, &mpegts.Track{Codec: &mpegts.CodecMPEG4Audio{Config: t.AAC}})
		case media.H265:
			// legal in MPEG-TS but not supported by the client under test
			tracks = append(tracks, &mpegts.Track{Codec: &mpegts.CodecH265{}})
		case media.Opus:
			tracks = append(tracks, &mpegts.Track{Codec: &mpegts.CodecOpus{ChannelCount: 2}})
		default:
			return fmt.Errorf("codec %s cannot be put in the synthetic MPEG-TS stream", t.Kind)
		}
	}
	sw := &switchW{}
	w := &mpegts.Writer{W: sw, Tracks: tracks}
	if err := w.Initialize(); err != nil {
		return err
	}
	const mask = (1 << 33) - 1
	for seg := 0; seg < nSeg; seg++ {
		var buf bytes.Buffer
		sw.w = &buf
		for _, sm := range s.segOrder(seg, lead) {
			t := s.Tracks[sm.Track]
			var err error
			switch t.Kind {
			case media.H264:
				err = w.WriteH264(tracks[sm.Track], sm.PTS&mask, sm.DTS&mask, sm.Units)
			case media.H265:
				err = w.WriteH265(tracks[sm.Track], sm.PTS&mask, sm.DTS&mask, sm.Units)
			case media.Opus:
				err = w.WriteOpus(tracks[sm.Track], sm.PTS&mask, sm.Units)
			default:
				err = w.WriteMPEG4Audio(tracks[sm.Track], sm.PTS&mask, sm.Units)
			}
			if err != nil {
				return err
			}
		}
		s.Segs = append(s.Segs, append([]byte{}, buf.Bytes()...))
	}
	return nil
}

type switchW struct{ w *bytes.Buffer }

func (s *switchW) Write(p []byte) (int, error) { return s.w.Write(p) }

// FMP4Codec returns the fmp4 codec of a track.
func (t *Track) FMP4Codec() fmp4.Codec {
	switch t.Kind {
	case media.H264:
		return &fmp4.CodecH264{SPS: t.Params.SPS, PPS: t.Params.PPS}
	case media.H265:
		return &fmp4.CodecH265{VPS: t.Params.VPS, SPS: t.Params.SPS, PPS: t.Params.PPS}
	case media.AV1:
		return &fmp4.CodecAV1{SequenceHeader: t.Params.Seq}
	case media.VP9:
		return &fmp4.CodecVP9{Width: 1920, Height: 1080, Profile: 0, BitDepth: 8, ChromaSubsampling: 1}
	case media.AAC:
		return &fmp4.CodecMPEG4Audio{Config: t.AAC}
	case media.Opus:
		ch := t.OpusCh
		if ch == 0 {
			ch = 2
		}
		return &fmp4.CodecOpus{ChannelCount: ch}
	}
	return nil
}

func (s *Stream) encodeFMP4(nSeg int, lead *Track) error {
	init := fmp4.Init{}
	for _, t := range s.Tracks {
		init.Tracks = append(init.Tracks, &fmp4.InitTrack{ID: t.ID, TimeScale: uint32(t.TimeScale), Codec: t.FMP4Codec()})
	}
	var ib seekablebuffer.Buffer
	if err := init.Marshal(&ib); err != nil {
		return err
	}
	s.Init = ib.Bytes()
	frags := s.FragsPer
	if frags <= 0 {
		frags = 1
	}
	seqNo := uint32(0)
	for seg := 0; seg < nSeg; seg++ {
		ordered := s.segOrder(seg, lead)
		var buf []byte
		per := (len(ordered) + frags - 1) / frags
		if per == 0 {
			per = 1
		}
		for f := 0; f*per < len(ordered); f++ {
			chunk := ordered[f*per : min(len(ordered), (f+1)*per)]
			part := fmp4.Part{SequenceNumber: seqNo}
			seqNo++
			// tracks in init order; the leading track first so that it is found first
			for ti, t := range s.Tracks {
				var pt *fmp4.PartTrack
				for _, sm := range chunk {
					if sm.Track != ti {
						continue
					}
					sm.Frag = f
					if pt == nil {
						pt = &fmp4.PartTrack{ID: t.ID, BaseTime: uint64(sm.DTS)}
					}
					ps := &fmp4.PartSample{Duration: uint32(sm.Dur), PTSOffset: int32(sm.PTS - sm.DTS)}
					switch t.Kind {
					case media.H264:
						if err := ps.FillH264(int32(sm.PTS-sm.DTS), sm.Units); err != nil {
							return err
						}
					case media.H265:
						if err := ps.FillH265(int32(sm.PTS-sm.DTS), sm.Units); err != nil {
							return err
						}
					case media.AV1:
						if err := ps.FillAV1(sm.Units); err != nil {
							return err
						}
					default:
						ps.Payload = sm.Units[0]
						ps.IsNonSyncSample = t.Kind.IsVideo() && !sm.RA
					}
					ps.Duration = uint32(sm.Dur)
					pt.Samples = append(pt.Samples, ps)
				}
				if pt != nil {
					part.Tracks = append(part.Tracks, pt)
				}
			}
			var pb seekablebuffer.Buffer
			if err := part.Marshal(&pb); err != nil {
				return err
			}
			buf = append(buf, pb.Bytes()...)
		}
		s.Segs = append(s.Segs, buf)
	}
	return nil
}

func min(a, b int) int {
	if a < b {
		return a
	}
	return b
}
