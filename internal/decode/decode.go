// Package decode decodes fMP4 and MPEG-TS segments with mediacommon (trusted base).
package decode

import (
	"bytes"
	"context"
	"errors"
	"fmt"

	"github.com/asticode/go-astits"
	"github.com/bluenviron/mediacommon/v2/pkg/codecs/h264"
	"github.com/bluenviron/mediacommon/v2/pkg/codecs/mpeg4audio"
	"github.com/bluenviron/mediacommon/v2/pkg/formats/fmp4"
)

// Sample is a decoded sample.
type Sample struct {
	TrackID   int // fMP4 track id (1-based) / MPEG-TS track index (0-based)
	DTS       int64
	PTSOffset int32
	Duration  uint32
	Sync      bool
	Payload   []byte   // fMP4: raw sample payload
	Units     [][]byte // MPEG-TS: NALUs / access units of one PES
	PTS       int64    // MPEG-TS raw PTS
}

// Fragment is one moof/mdat pair.
type Fragment struct {
	Seq    uint32
	Tracks []FragTrack
}

// FragTrack is a track run inside a fragment.
type FragTrack struct {
	ID       int
	BaseTime uint64
	Samples  []Sample
}

// FMP4 decodes the fragments of a segment or part.
func FMP4(b []byte) ([]Fragment, error) {
	var parts fmp4.Parts
	err := parts.Unmarshal(b)
	if err != nil {
		return nil, err
	}
	var out []Fragment
	for _, p := range parts {
		f := Fragment{Seq: p.SequenceNumber}
		for _, t := range p.Tracks {
			ft := FragTrack{ID: t.ID, BaseTime: t.BaseTime}
			dts := int64(t.BaseTime)
			for _, s := range t.Samples {
				ft.Samples = append(ft.Samples, Sample{
					TrackID: t.ID, DTS: dts, PTSOffset: s.PTSOffset, Duration: s.Duration,
					Sync: !s.IsNonSyncSample, Payload: s.Payload,
				})
				dts += int64(s.Duration)
			}
			f.Tracks = append(f.Tracks, ft)
		}
		out = append(out, f)
	}
	return out, nil
}

// Init decodes an init segment.
func Init(b []byte) (*fmp4.Init, error) {
	var i fmp4.Init
	err := i.Unmarshal(bytes.NewReader(b))
	if err != nil {
		return nil, err
	}
	return &i, nil
}

// TS is a decoded MPEG-TS segment.
type TS struct {
	VideoPID, AudioPID int      // -1 when the PMT does not declare one
	StreamTypes        []uint8  // PMT stream types in PMT order
	Samples            []Sample // in container order; TrackID 0 = video, 1 = audio
	DecodeErrors       []string
	StartsPATPMT       bool
}

// patPMTAtStart reports whether the first two packets are the PAT and the PMT it announces.
func patPMTAtStart(b []byte) bool {
	if len(b) < 376 || b[0] != 0x47 || b[188] != 0x47 {
		return false
	}
	pid0 := (int(b[1]&0x1f) << 8) | int(b[2])
	pid1 := (int(b[189]&0x1f) << 8) | int(b[190])
	if pid0 != 0 || b[1]&0x40 == 0 {
		return false
	}
	// payload of the PAT packet
	off := 4
	if b[3]&0x20 != 0 {
		off += 1 + int(b[4])
	}
	if off >= 188 {
		return false
	}
	off += 1 + int(b[off]) // pointer field
	if off+12 > 188 || b[off] != 0 {
		return false
	}
	pmtPID := (int(b[off+10]&0x1f) << 8) | int(b[off+11])
	return pid1 == pmtPID
}

// MPEGTS decodes a standalone MPEG-TS segment with go-astits (PES level) and mediacommon's
// Annex-B / ADTS parsers. Unlike mediacommon's mpegts.Reader it does not need every declared
// stream to carry data inside the segment.
func MPEGTS(b []byte) (*TS, error) {
	out := &TS{VideoPID: -1, AudioPID: -1}
	out.StartsPATPMT = patPMTAtStart(b)
	dem := astits.NewDemuxer(context.Background(), bytes.NewReader(b), astits.DemuxerOptPacketSize(188))
	for {
		d, err := dem.NextData()
		if err != nil {
			if errors.Is(err, astits.ErrNoMorePackets) {
				break
			}
			return out, fmt.Errorf("demux: %w", err)
		}
		if d.PMT != nil && out.StreamTypes == nil {
			for _, es := range d.PMT.ElementaryStreams {
				out.StreamTypes = append(out.StreamTypes, uint8(es.StreamType))
				switch es.StreamType {
				case astits.StreamTypeH264Video:
					out.VideoPID = int(es.ElementaryPID)
				case astits.StreamTypeAACAudio:
					out.AudioPID = int(es.ElementaryPID)
				}
			}
		}
		if d.PES == nil {
			continue
		}
		oh := d.PES.Header.OptionalHeader
		if oh == nil || oh.PTS == nil {
			out.DecodeErrors = append(out.DecodeErrors, "PES without PTS")
			continue
		}
		pts := oh.PTS.Base
		dts := pts
		if oh.PTSDTSIndicator == astits.PTSDTSIndicatorBothPresent && oh.DTS != nil {
			dts = oh.DTS.Base
		}
		switch int(d.PID) {
		case out.VideoPID:
			var au h264.AnnexB
			if err := au.Unmarshal(d.PES.Data); err != nil {
				out.DecodeErrors = append(out.DecodeErrors, "annex-b: "+err.Error())
				continue
			}
			out.Samples = append(out.Samples, Sample{TrackID: 0, PTS: pts, DTS: dts, Units: au})
		case out.AudioPID:
			var pkts mpeg4audio.ADTSPackets
			if err := pkts.Unmarshal(d.PES.Data); err != nil {
				out.DecodeErrors = append(out.DecodeErrors, "adts: "+err.Error())
				continue
			}
			var aus [][]byte
			for _, p := range pkts {
				aus = append(aus, p.AU)
			}
			out.Samples = append(out.Samples, Sample{TrackID: 1, PTS: pts, DTS: pts, Units: aus})
		default:
			out.DecodeErrors = append(out.DecodeErrors, fmt.Sprintf("PES on undeclared PID %d", d.PID))
		}
	}
	if out.StreamTypes == nil {
		return out, fmt.Errorf("no PMT in segment")
	}
	return out, nil
}
