// mutgen enumerates single-site syntactic mutants of gohlslib source files.
//
//	mutgen list <repo> <file>...           -> one JSON line per mutant {id,file,line,op,from,to,start,end,func}
//	mutgen apply <repo> <file> <start> <end> <replacement>   (rewrites the file in place)
//
// Mutants are byte-range replacements positioned with go/ast so that the diff is one line. They
// are a *screening* device for the monitors in /verif (tools/mutscreen.py): survivors of the
// pinned test suite are run against the quick checks and the ones no check notices are triaged by
// hand (equivalent / not a property / a gap to close). Nothing here decides a property.
package main

import (
	"encoding/json"
	"fmt"
	"go/ast"
	"go/parser"
	"go/token"
	"os"
	"path/filepath"
	"strconv"
	"strings"
)

type mutant struct {
	ID    int    `json:"id"`
	File  string `json:"file"`
	Line  int    `json:"line"`
	Op    string `json:"op"`
	From  string `json:"from"`
	To    string `json:"to"`
	Start int    `json:"start"`
	End   int    `json:"end"`
	Func  string `json:"func"`
}

var swaps = map[token.Token][]string{
	token.LSS: {"<="}, token.LEQ: {"<"}, token.GTR: {">="}, token.GEQ: {">"},
	token.EQL: {"!="}, token.NEQ: {"=="}, token.LAND: {"||"}, token.LOR: {"&&"},
	token.ADD: {"-"}, token.SUB: {"+"},
}

func main() {
	if len(os.Args) < 3 {
		fmt.Fprintln(os.Stderr, "usage: mutgen list|apply ...")
		os.Exit(2)
	}
	switch os.Args[1] {
	case "list":
		repo := os.Args[2]
		id := 0
		enc := json.NewEncoder(os.Stdout)
		for _, f := range os.Args[3:] {
			for _, m := range list(repo, f) {
				id++
				m.ID = id
				enc.Encode(m)
			}
		}
	case "apply":
		repo, f := os.Args[2], os.Args[3]
		start, _ := strconv.Atoi(os.Args[4])
		end, _ := strconv.Atoi(os.Args[5])
		p := filepath.Join(repo, f)
		src, err := os.ReadFile(p)
		if err != nil {
			panic(err)
		}
		out := string(src[:start]) + os.Args[6] + string(src[end:])
		if err := os.WriteFile(p, []byte(out), 0o644); err != nil {
			panic(err)
		}
	}
}

func list(repo, file string) []mutant {
	fset := token.NewFileSet()
	p := filepath.Join(repo, file)
	src, err := os.ReadFile(p)
	if err != nil {
		panic(err)
	}
	af, err := parser.ParseFile(fset, p, src, parser.ParseComments)
	if err != nil {
		panic(err)
	}
	var out []mutant
	off := func(pos token.Pos) int { return fset.Position(pos).Offset }
	lineOf := func(pos token.Pos) int { return fset.Position(pos).Line }
	lineText := func(pos token.Pos) string {
		o := off(pos)
		s, e := o, o
		for s > 0 && src[s-1] != '\n' {
			s--
		}
		for e < len(src) && src[e] != '\n' {
			e++
		}
		return string(src[s:e])
	}
	curFunc := ""
	add := func(pos token.Pos, op string, start, end int, to string) {
		if strings.Contains(lineText(pos), "verifPoint(") {
			return
		}
		out = append(out, mutant{File: file, Line: lineOf(pos), Op: op, From: string(src[start:end]), To: to, Start: start, End: end, Func: curFunc})
	}
	for _, d := range af.Decls {
		fd, ok := d.(*ast.FuncDecl)
		if !ok || fd.Body == nil {
			continue
		}
		curFunc = fd.Name.Name
		if fd.Recv != nil && len(fd.Recv.List) > 0 {
			t := fd.Recv.List[0].Type
			if st, ok := t.(*ast.StarExpr); ok {
				t = st.X
			}
			if id, ok := t.(*ast.Ident); ok {
				curFunc = id.Name + "." + fd.Name.Name
			}
		}
		ast.Inspect(fd.Body, func(n ast.Node) bool {
			switch x := n.(type) {
			case *ast.BinaryExpr:
				if tos, ok := swaps[x.Op]; ok {
					// skip string concatenation
					if x.Op == token.ADD {
						if bl, ok := x.X.(*ast.BasicLit); ok && bl.Kind == token.STRING {
							break
						}
						if bl, ok := x.Y.(*ast.BasicLit); ok && bl.Kind == token.STRING {
							break
						}
					}
					s := off(x.OpPos)
					for _, to := range tos {
						add(x.OpPos, "binop", s, s+len(x.Op.String()), to)
					}
				}
			case *ast.UnaryExpr:
				if x.Op == token.NOT {
					s := off(x.OpPos)
					add(x.OpPos, "unnot", s, s+1, "")
				}
			case *ast.IfStmt:
				s, e := off(x.Cond.Pos()), off(x.Cond.End())
				add(x.Cond.Pos(), "ifneg", s, e, "!("+string(src[s:e])+")")
			case *ast.BasicLit:
				if x.Kind == token.INT {
					v, err := strconv.ParseInt(x.Value, 0, 64)
					if err == nil {
						s, e := off(x.Pos()), off(x.End())
						add(x.Pos(), "int+1", s, e, strconv.FormatInt(v+1, 10))
						if v > 0 {
							add(x.Pos(), "int-1", s, e, strconv.FormatInt(v-1, 10))
						}
					}
				}
			case *ast.BlockStmt:
				for _, st := range x.List {
					stmtMut(st, off, add, src)
				}
			case *ast.CaseClause:
				for _, st := range x.Body {
					stmtMut(st, off, add, src)
				}
			case *ast.CommClause:
				for _, st := range x.Body {
					stmtMut(st, off, add, src)
				}
			}
			return true
		})
	}
	return out
}

func stmtMut(st ast.Stmt, off func(token.Pos) int, add func(token.Pos, string, int, int, string), src []byte) {
	s, e := off(st.Pos()), off(st.End())
	switch x := st.(type) {
	case *ast.ExprStmt:
		add(st.Pos(), "delcall", s, e, "")
	case *ast.AssignStmt:
		if x.Tok != token.DEFINE {
			// keep the right-hand side evaluated? no: plain deletion (unused-variable errors are
			// discarded by the compile step)
			add(st.Pos(), "delassign", s, e, "")
		}
	case *ast.IncDecStmt:
		add(st.Pos(), "delincdec", s, e, "")
	case *ast.DeferStmt:
		add(st.Pos(), "deldefer", s, e, "")
	case *ast.GoStmt:
		_ = x
	case *ast.BranchStmt:
		if x.Tok == token.BREAK || x.Tok == token.CONTINUE {
			add(st.Pos(), "delbranch", s, e, "")
		}
	case *ast.ReturnStmt:
		if len(x.Results) == 0 {
			add(st.Pos(), "delreturn", s, e, "")
		}
	}
}
