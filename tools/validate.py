#!/usr/bin/env python3
"""Validate MANIFEST.json and the evidence files against the schemas (python3-vt has jsonschema)."""
import json, sys, glob, jsonschema
ok = True
try:
    jsonschema.validate(json.load(open('/verif/MANIFEST.json')), json.load(open('/root/.vp/MANIFEST.schema.json')))
except Exception as e:
    ok = False; print('MANIFEST:', str(e)[:300])
sch = json.load(open('/root/.vp/EVIDENCE.schema.json'))
for f in sorted(glob.glob('/verif/evidence/*.json')):
    try:
        jsonschema.validate(json.load(open(f)), sch)
    except Exception as e:
        ok = False; print(f, str(e)[:300])
print('ok' if ok else 'INVALID')
sys.exit(0 if ok else 1)
