#!/usr/bin/env python3
"""Prints the markdown table of seeded changes (DESIGN.md §11.6) from seeded/*/meta.json."""
import json, glob, os
print("| seed | property | change (as described by its author) | needs | caught by | first evaluation |")
print("|---|---|---|---|---|---|")
for f in sorted(glob.glob('/verif/seeded/*/meta.json')):
    m = json.load(open(f))
    log = m.get("evaluation_log", [])
    first = {}
    for l in log:
        p = l.split()
        cid, rc = p[5], p[6]
        first.setdefault(cid, rc)
    firsttxt = ", ".join(f"{k}: {'caught' if v=='rc=1' else 'MISSED'}" for k, v in first.items())
    s = (m.get("summary") or "").replace("|", "/").replace("\n", " ")
    n = (m.get("needs_to_manifest") or "").replace("|", "/").replace("\n", " ")
    if len(s) > 230: s = s[:227] + "..."
    if len(n) > 200: n = n[:197] + "..."
    print(f"| {m['name']} | {m['breaks_property']} | {s} | {n} | {', '.join(m['caught_by']) or 'NOTHING'} | {firsttxt} |")
