#!/usr/bin/env python3
"""Regenerates /verif/MANIFEST.json from the table below (kept in one place so that it stays valid)."""
import json, subprocess
props = [json.loads(l) for l in open('/verif/properties.jsonl')]
HOOK_COMMITS = ["ea0c217", "aaab671"]
MUX = "runtime monitoring: sequential observation history of the real Muxer (every Write followed by fetching and decoding everything served) checked by a reference-model oracle"
CHECKS = {
 "C01": ("muxmon", "exploration", MUX,
   "After every Write all playlists and every newly listed segment/part are fetched through Muxer.Handle and decoded with mediacommon; decoded units carry unique payload tags and are matched against the harness's record of what was written (order, bytes, DTS/PTS offset/duration/sync, contiguous base times, start and end of the run)."),
 "C02": ("muxmon", "exploration", MUX,
   "Observed cut points are compared with an exact-rational replay of the switch rule over the written leading-track units (sub-ns don't-care band only), all streams compared per round, init segments decoded at every change and compared with the parameters of the listed segments."),
 "C03": ("muxmon", "exploration", MUX,
   "Every playlist response is parsed by the independent m3u8x reader; EXTINF / PART DURATION / PROGRAM-DATE-TIME compared with the written timestamps and with durations recomputed from decoded fragments; target-duration, part-target, hold-back and skip-boundary inequalities checked on every response and across the history."),
 "C04": ("muxmon", "exploration", MUX,
   "The whole sequence of playlists of every stream over long histories is checked for the RFC 8216 evolution rules (MSN monotone, MSN->(URI,duration,gap) functional, window bound, URI numbering, part numbering without holes, parts only under the last two segments, preload hint = next part, cross-stream agreement)."),
 "C05": ("muxmon", "exploration", MUX,
   "Every advertised URI is fetched when first listed and again whenever the playlist text changes (so also after Finalize dropped the RAM copy of disk segments); bodies hashed, decoded, compared with the concatenation of their parts; mfhd numbers checked; expired and never-issued URIs probed."),
 "C06": ("llmon", "exploration", "runtime monitoring: step-controlled concurrent histories of the real Low-Latency muxer (hooked wait/park events) checked against the playlist state of every step",
   "One writer advanced one Write at a time; blocking-reload, preload-hint and delta requests of every class issued at seeded steps on any stream; after each step the monitor waits for every woken waiter to re-park or return, then decides safety (response contains what was asked), bounded liveness (nobody parked although satisfiable) and the 400 rules; delta updates are compared with the full playlist of the same instant."),
 "C07": ("llmon", "exploration", "runtime monitoring under the race detector: Close driven against confirmed-parked requests under forced schedules (hooks close.broadcast / wait.wake), state-based stuck detection",
   "variant x storage x life point x pending set x schedule; each pending request is confirmed parked before Close; Close is held between its broadcast and the per-stream close until every waiter woke and re-parked (and the symmetric order); afterwards every pending and every new request must complete, the mutex must be free and the Directory empty."),
 "C08": ("llmon", "exploration", "Go race detector + panic capture + snapshot/monotonicity oracles over seeded stress schedules of the real muxer",
   "One writer and 4-31 readers cycling through every URL kind with seeded delays at the hook points, then Close while readers are active; race reports of the monitor's own process are parsed and de-duplicated; every 200 playlist is validated as a consistent snapshot; per-reader playlist sequences checked for monotone evolution; bodies of the same URI compared across readers."),
 "C20": ("qmon", "exploration", "systematic schedule enumeration of the real queue at its hooked preemption points + porcupine linearizability check of every recorded history + race detector stress",
   "Producer scripts over {push, waitUntilSizeIsBelow(0|1)} x consumer pull scripts x cancellation are executed on the real clientSegmentQueue; at the two unlock->wait windows and at operation boundaries every choice of which actor advances is enumerated depth-first (exhaustive for the stated bounds); each history is checked against a FIFO model with porcupine and the quiescent wake-up oracle (blocked although the condition holds); then free-running stress under the race detector."),
 "C09": ("e2emon", "exploration", "runtime monitoring under the race detector: the real Client wired in-process to the real Muxer; delivered units matched (unique payload tags) against the written ones by a reference-model oracle",
   "Generated write sequences (all variants, every codec the muxer accepts, renditions with names / languages / defaults, parameter changes) are written by a demand-gated (MPEG-TS, fMP4) or delivery-gated (Low-Latency) writer while a Client reads Muxer.Handle through an in-process transport; tracks, codec parameters, rendition attributes, order / bytes / exactly-once of every delivered unit, PTS / DTS relative to the first delivered leading unit and AbsoluteTime are checked."),
 "C10": ("climon", "exploration", "runtime monitoring: the real Client run against an in-process origin (scripted playlists + synthesized media), request log and callback log checked by a reference-model oracle",
   "Well-formed MPEG-TS / fMP4 streams are synthesized with mediacommon writers and a hand-written playlist printer (timestamp bases incl. 2^40 and the 33-bit wrap, PTS offsets, several fragments per segment, renditions with different timescales, byte ranges, date-times); every unit delivered through OnData* is matched (unique payload tags) against the synthesized one: order, bytes, normalized PTS/DTS +-1 tick, drop rule at the origin, AbsoluteTime."),
 "C11": ("climon", "exploration", "runtime monitoring: the real Client run against an in-process origin (scripted playlists + synthesized media), request log and callback log checked by a reference-model oracle",
   "Scripted playlist histories (window size, advance per poll, ENDLIST, VOD/EVENT/untyped, six URI forms, byte ranges with and without offset, independent renditions, Low-Latency hints with / without CAN-SKIP-UNTIL); the origin's request log is compared with a reference model of the specified selection rule: start segment, consecutive media sequence numbers once each, URL resolution, Range header, playlist reload between segments, error instead of jumping, ErrClientEOS."),
 "C12": ("climon", "fault_enumeration", "fault and Close-point enumeration over baseline client scripts under the race detector, with a goroutine census (runtime.Stack) and callback-log oracle",
   "For four baseline scripts every (fault kind x request index) and every Close point (before the first response, during each request, inside OnTracks, inside / after each OnData, after the end) x (once, three times, concurrently) is executed; Wait() must yield exactly one non-nil error, the injected one where the property says so, no callback may follow it, and after every batch no client goroutine may be alive."),
 "C13": ("climon", "exploration", "hostile-origin catalogue run in child processes (crash attribution by last logged case) + native go fuzzing of playlist bytes through a whole Client; termination, bounded-request and census oracles",
   "Catalogue of structure-aware hostile inits / segments / parts / MPEG-TS / playlists (unsupported codecs, track-id permutations, empty and truncated boxes at every boundary, absurd numbers, mixed containers, traps at playlist level) plus seeded corruption, each run against the real Client in a child process; go test -fuzz feeds raw playlist bytes to a whole client. No crash, ends by itself or on Close, bounded requests unless matched by deliveries, no callback after the end, census empty."),
 "C14": ("plmon", "exploration", "runtime monitoring: generated playlist values pushed through the real Marshal/Unmarshal, compared field by field and against an independent second decoder",
   "Every subset of optional fields of every tag is enumerated, plus random legal values; each value is marshaled, unmarshaled, re-marshaled, decoded by the independent m3u8x reader and decoded again from four syntactic variants."),
 "C15": ("plmon", "exploration", "runtime monitoring: strict-grammar oracle over encoder output and served playlists, post-condition oracle over decoder results under seeded mutation and native go fuzzing",
   "Encoder output of the C14 value space and every distinct playlist served by real muxers are parsed by the strict m3u8x grammar; the three decoders are driven by seeded grammar-aware mutations and by go test -fuzz for a fixed number of executions, with the structural post-conditions and a re-Marshal asserted on every successful decode."),
 "C16": ("muxmon", "exploration", MUX,
   "index.m3u8 is fetched after every Write and compared with codec strings, resolution and frame rate computed independently from the current parameter sets, with the expected rendition table and with bit rates recomputed from the listed segments."),
 "C17": ("stomon", "exploration", "runtime monitoring: random operation histories on the real RAM and disk storage in lock-step with a byte-slice reference model",
   "Seeded operation histories (NewPart, Write, Seek, part/file readers before and after Finalize with many buffer sizes, Size, Remove, readers used after Remove) are executed on both factories and a [][]byte model; every observation is compared."),
 "C18": ("muxmon", "exploration", MUX,
   "Long histories (window sliding many times) and small SegmentMaxSize cases: per round the listed window, the Directory listing and the number of registered URL paths are bounded by what can be live; expired URIs are probed; payload of every published segment is bounded by SegmentMaxSize; size errors are checked against an upper bound of the open segment."),
 "C19": ("muxmon", "exploration", MUX,
   "Low-Latency muxers with a constant leading sample duration over the frame-rate / PartMinDuration / key-spacing grid; every non-final part of every playlist response is checked for one common D, the 85%..100% PART-TARGET band, the PartMinDuration bounds and PART-TARGET stability."),
}
checks = []
for p in props:
    if p["id"] not in CHECKS: continue
    eng, level, tech, text = CHECKS[p["id"]]
    checks.append({
      "property_id": p["id"],
      "quick_cmd": f"./check {p['id']} --tier quick",
      "thorough_cmd": f"./check {p['id']} --tier thorough",
      "evidence_file": f"/verif/evidence/{p['id']}.json",
      "replay_cmd_template": f"./check {p['id']} --replay {{path}}",
      "engine": eng,
      "level_claimed": {"category": level, "text": text + " The verdict is 'held on the K executions reported in the evidence file', nothing more.", "design_ref": "DESIGN.md §4 " + p["id"]},
      "level_note": "Trusted base: mediacommon v2.1.0 + go-astits decoders, the harness's own m3u8x reader, generators and reference models; inputs are sampled by seeded generators (VERIF_SEED), bounded by case counts, not enumerated (except the optional-field subsets of C14).",
      "technique": tech,
    })
m = {
 "version": 1,
 "setup_cmd": "cd /verif && GOFLAGS=-mod=mod GOPROXY=off GOSUMDB=off GOTOOLCHAIN=local go build -tags verif -o .build/vmon ./cmd/vmon && GOFLAGS=-mod=mod GOPROXY=off GOSUMDB=off GOTOOLCHAIN=local go build -tags verif -race -o .build/vmon-race ./cmd/vmon",
 "hooks": {"guard": "verif", "enable": "go build -tags verif (verif_on.go / verif_off.go + single-line verifPoint call sites in /repo)",
           "baseline_off_cmd": "cd /repo && GOFLAGS=-mod=mod GOPROXY=off GOSUMDB=off go test -json -vet=off -count=1 -timeout 25m ./...",
           "source_commits": HOOK_COMMITS, "add_only": True},
 "engines": [
   {"name": "muxmon", "path": "/verif/cmd/vmon/mux.go", "serves_properties": [k for k,v in CHECKS.items() if v[0]=="muxmon"], "kind_free_text": "sequential runtime monitor of the real Muxer with reference-model oracles (internal/muxrun, internal/oracle)"},
   {"name": "plmon", "path": "/verif/cmd/vmon/playlist.go", "serves_properties": [k for k,v in CHECKS.items() if v[0]=="plmon"], "kind_free_text": "playlist codec monitor + native fuzz targets (internal/plx, internal/plfuzz, internal/m3u8x)"},
   {"name": "llmon", "path": "/verif/cmd/vmon/c06.go", "serves_properties": ["C06","C07","C08"], "kind_free_text": "concurrent muxer monitors (c06.go step-controlled, c07.go forced Close schedules, c08.go race-detector stress; internal/hx hook dispatcher, internal/racelog)"},
   {"name": "qmon", "path": "/verif/cmd/vmon/c20.go", "serves_properties": ["C20"], "kind_free_text": "segment queue schedule enumerator + porcupine + stress"},
   {"name": "e2emon", "path": "/verif/cmd/vmon/c09.go", "serves_properties": ["C09"], "kind_free_text": "Muxer <-> Client end-to-end monitor"},
   {"name": "climon", "path": "/verif/cmd/vmon/c11.go", "serves_properties": ["C10","C11","C12","C13"], "kind_free_text": "client monitors (c10.go, c11.go, c12.go, c13.go; internal/origin in-process origin + synth, internal/clirun observer, internal/clifuzz fuzz target)"},
   {"name": "stomon", "path": "/verif/cmd/vmon/storage.go", "serves_properties": ["C17"], "kind_free_text": "storage lock-step model monitor"},
 ],
 "checks": checks,
 "not_applicable": [{"property_id": p["id"], "reason": "no claim is made"} for p in props if p["id"] not in CHECKS],
 "notes": "Runtime monitoring and sanitizers only; see DESIGN.md. Known findings: KNOWN_FINDINGS.txt.",
}
json.dump(m, open('/verif/MANIFEST.json', 'w'), indent=1)
print("checks:", len(checks), "not_applicable:", len(m["not_applicable"]))
