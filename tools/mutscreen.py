#!/usr/bin/env python3
"""Mutation screening of the monitors (development aid, decides nothing).

phase1: every mutant of tools/mutgen is compiled and run against the pinned test suite (inside a
        private network namespace so that the fixed-port client tests can run side by side);
        survivors = mutants the pinned suite does not notice.
phase2: every survivor is run against the quick checks mapped to its file (VERIF_FAILFAST=1), in a
        scratch copy of /verif pointing at a scratch worktree. Output: one JSON line per mutant.

usage: mutscreen.py phase1 <mutants.jsonl> <out.jsonl> [workers]
       mutscreen.py phase2 <phase1.jsonl> <out.jsonl> [workers] [--only id,id,...]
Scratch space: /tmp/mt (removed by `mutscreen.py clean`).
"""
import json, os, subprocess, sys, threading, queue, shutil, re

ENV = dict(os.environ, GOFLAGS='-mod=mod', GOPROXY='off', GOSUMDB='off', GOTOOLCHAIN='local')
MT = '/tmp/mt'
MUTGEN = '/verif/.build/mutgen'

def sh(cmd, cwd=None, timeout=None, env=None):
    try:
        p = subprocess.run(cmd, shell=True, cwd=cwd, env=env or ENV, capture_output=True, text=True, timeout=timeout)
        return p.returncode, p.stdout + p.stderr
    except subprocess.TimeoutExpired as e:
        return 124, 'TIMEOUT ' + str(e.stdout)[-2000:]

def worktree(path):
    if not os.path.isdir(path):
        sh(f'git -C /repo worktree add -q --detach {path} HEAD')

BASE_LOCK = threading.Lock()

def base_commit():
    return open('/verif/mutants/auto/BASE').read().strip()

def mutant_diff(m):
    """unified diff of a mutant, produced in a worktree at the commit the mutant list was generated from"""
    if m.get('diff'):
        return m['diff']
    with BASE_LOCK:
        wt = f'{MT}/base'
        if not os.path.isdir(wt):
            sh(f'git -C /repo worktree add -q --detach {wt} {base_commit()}')
        sh('git checkout -q -- .', cwd=wt)
        subprocess.run([MUTGEN, 'apply', wt, m['file'], str(m['start']), str(m['end']), m['to']], check=True)
        rc, d = sh('git diff', cwd=wt)
        sh('git checkout -q -- .', cwd=wt)
        return d

MUX_ALL = ['C01', 'C02', 'C03', 'C04', 'C05', 'C16', 'C18', 'C19', 'C06', 'C07', 'C08', 'C09']
CLI_ALL = ['C09', 'C10', 'C11', 'C12', 'C13', 'C20']

def checks_for(m):
    f = m['file']
    if f.startswith('pkg/playlist'):
        return ['C14', 'C15', 'C03', 'C11']
    if f.startswith('pkg/storage'):
        return ['C17', 'C05', 'C07', 'C08']
    if f.startswith('pkg/codecparams'):
        return ['C16', 'C10']
    if f == 'muxer_segmenter.go':
        return ['C01', 'C02', 'C03', 'C19', 'C18', 'C09']
    if f == 'muxer_stream.go':
        return ['C03', 'C05', 'C04', 'C16', 'C18', 'C06', 'C07', 'C08']
    if f == 'muxer.go':
        return ['C01', 'C02', 'C16', 'C05', 'C06', 'C07', 'C08']
    if f == 'muxer_server.go':
        return ['C05', 'C06', 'C08']
    if f.startswith('muxer'):
        return ['C01', 'C03', 'C05', 'C18', 'C09']
    if f.startswith('client'):
        return CLI_ALL
    return MUX_ALL + CLI_ALL

def phase1(mfile, out, workers):
    done = set()
    if os.path.exists(out):
        for l in open(out):
            done.add(json.loads(l)['id'])
    q = queue.Queue()
    for l in open(mfile):
        m = json.loads(l)
        if m['id'] not in done:
            q.put(m)
    lock = threading.Lock()
    fo = open(out, 'a')
    def work(k):
        wt = f'{MT}/w{k}'
        worktree(wt)
        while True:
            try:
                m = q.get_nowait()
            except queue.Empty:
                return
            sh(f'git checkout -q -- .', cwd=wt)
            subprocess.run([MUTGEN, 'apply', wt, m['file'], str(m['start']), str(m['end']), m['to']], check=True)
            rc, o = sh('go build . ./pkg/... && go build -tags verif . ./pkg/...', cwd=wt, timeout=300)
            if rc != 0:
                st = 'nocompile'
            else:
                rc, o = sh("unshare -n bash -c 'ip link set lo up; go test -vet=off -count=1 -timeout 45s . ./pkg/...'", cwd=wt, timeout=200)
                st = 'survived' if rc == 0 else 'killed'
            m['status'] = st
            if st == 'killed':
                mm = re.findall(r'--- FAIL: (\S+)', o)
                m['by'] = mm[:3] if mm else [o[-200:]]
            with lock:
                fo.write(json.dumps(m) + '\n'); fo.flush()
            sh(f'git checkout -q -- .', cwd=wt)
    ts = [threading.Thread(target=work, args=(k,)) for k in range(workers)]
    [t.start() for t in ts]; [t.join() for t in ts]

def phase2(p1, out, workers, only, redo=False):
    done = set()
    if os.path.exists(out):
        keep = []
        for l in open(out):
            m = json.loads(l)
            if redo and m.get('caught_by') is None:
                continue  # run again with the current checks
            done.add(m['id'])
            keep.append(l)
        if redo:
            open(out, 'w').writelines(keep)
    q = queue.Queue()
    byfile = {}
    for l in open(p1):
        m = json.loads(l)
        if m.get('status') != 'survived' or m['id'] in done:
            continue
        if only and m['id'] not in only:
            continue
        if 'log.Print' in m['from']:
            continue  # default logging callbacks: no property is about them
        byfile.setdefault(m['file'], []).append(m)
    # round-robin over the files so that every file is sampled early
    while byfile:
        for f in sorted(byfile):
            q.put(byfile[f].pop(0))
            if not byfile[f]:
                del byfile[f]
    lock = threading.Lock()
    fo = open(out, 'a')
    def work(k):
        wt = f'{MT}/e{k}/repo'
        vf = f'{MT}/e{k}/verif'
        os.makedirs(f'{MT}/e{k}', exist_ok=True)
        worktree(wt)
        sh('git checkout -q -- . && git checkout -q --detach ' + sh('git -C /repo rev-parse HEAD')[1].strip(), cwd=wt)
        sh(f'rsync -a --delete --exclude .git --exclude .build --exclude logs --exclude replays --exclude evidence --exclude seeded --exclude mutants /verif/ {vf}/')
        sh(f"sed -i 's#=> /repo#=> {wt}#' {vf}/go.mod")
        while True:
            try:
                m = q.get_nowait()
            except queue.Empty:
                return
            sh('git checkout -q -- .', cwd=wt)
            d = mutant_diff(m)
            open(f'{MT}/e{k}/m.diff', 'w').write(d)
            rc, o = sh(f'git apply {MT}/e{k}/m.diff', cwd=wt)
            if rc != 0:
                m['caught_by'] = None
                m['results'] = {'apply': {'rc': rc, 'key': 'the mutant no longer applies to HEAD: ' + o[-200:]}}
                with lock:
                    fo.write(json.dumps(m) + '\n'); fo.flush()
                continue
            res = {}
            caught = None
            for cid in (m.get('checks') or checks_for(m)):
                env = dict(ENV, VERIF_FAILFAST='1', VERIF_LIMIT=os.environ.get('VERIF_LIMIT', '600'))
                rc, o = sh(f'./check {cid} --tier quick', cwd=vf, timeout=1000, env=env)
                key = ''
                mm = re.search(r'^\s+key=(\S+) (.*)$', o, re.M)
                if mm:
                    key = mm.group(1) + ' ' + mm.group(2)[:160]
                elif 'VIOLATION' in o:
                    key = [l for l in o.split('\n') if 'VIOLATION' in l][0][:200]
                elif 'INCONCLUSIVE' in o:
                    key = 'INCONCLUSIVE'
                res[cid] = {'rc': rc, 'key': key}
                if rc == 1 or 'VIOLATION' in o:
                    caught = cid
                    break
            m['caught_by'] = caught
            m['results'] = res
            with lock:
                fo.write(json.dumps(m) + '\n'); fo.flush()
            sh('git checkout -q -- .', cwd=wt)
    ts = [threading.Thread(target=work, args=(k,)) for k in range(workers)]
    [t.start() for t in ts]; [t.join() for t in ts]

def clean():
    for d in os.listdir(MT):
        for sub in (f'{MT}/{d}', f'{MT}/{d}/repo'):
            if os.path.exists(sub + '/.git'):
                sh(f'git -C /repo worktree remove --force {sub}')
    shutil.rmtree(MT, ignore_errors=True)
    sh('git -C /repo worktree prune')

if __name__ == '__main__':
    cmd = sys.argv[1]
    if cmd == 'clean':
        clean()
    elif cmd == 'phase1':
        phase1(sys.argv[2], sys.argv[3], int(sys.argv[4]) if len(sys.argv) > 4 else 6)
    elif cmd == 'phase2':
        only = None
        args = sys.argv[2:]
        if '--only' in args:
            i = args.index('--only'); only = set(int(x) for x in args[i+1].split(',')); args = args[:i]
        redo = '--redo' in args
        args = [a for a in args if a != '--redo']
        phase2(args[0], args[1], int(args[2]) if len(args) > 2 else 3, only, redo)
